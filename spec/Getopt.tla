------------------------------- MODULE Getopt -------------------------------
(***************************************************************************)
(* Specification of the go-getoptions command line parser: token splitter, *)
(* option lookup with abbreviations, value intake (min/max), terminator,   *)
(* require-order, unknown-option policy, command descent, definition-time  *)
(* environment variables, required options, Dispatch, help command.        *)
(*                                                                         *)
(* Everything is written as pure operators over a state record `st` so the *)
(* same definitions serve (a) step-wise exploration (GetoptMC), (b) running*)
(* a parse to completion (Run, used by relational properties) and (c) trace*)
(* validation of executions of the real code (GetoptTrace).                *)
(*                                                                         *)
(* A token is a sequence of ATOMS.  An atom is a string standing for one   *)
(* UTF-8 sequence (or one stray byte) of the real token: printable ASCII   *)
(* other than the double quote and the backslash stands for itself, every  *)
(* other sequence is "x" followed by lower-case hex of its bytes.          *)
(***************************************************************************)
EXTENDS Integers, Sequences, FiniteSets, TLC

DASH == "-"
EQ   == "="
DOT  == "."
TrueTok  == <<"t","r","u","e">>
FalseTok == <<"f","a","l","s","e">>
TermTok  == <<DASH, DASH>>

-----------------------------------------------------------------------------
(* Sequence helpers *)
Rng(s) == {s[k] : k \in 1..Len(s)}
Take(s, n) == SubSeq(s, 1, n)
Drop(s, n) == SubSeq(s, n + 1, Len(s))
IsPfx(p, s) == Len(p) <= Len(s) /\ SubSeq(s, 1, Len(p)) = p

RECURSIVE FirstIdx(_, _, _)
FirstIdx(s, a, from) ==
  IF from > Len(s) THEN 0
  ELSE IF s[from] = a THEN from ELSE FirstIdx(s, a, from + 1)

RECURSIVE FirstDotDot(_, _)
FirstDotDot(s, from) ==
  IF from + 1 > Len(s) THEN 0
  ELSE IF s[from] = DOT /\ s[from + 1] = DOT THEN from ELSE FirstDotDot(s, from + 1)

RECURSIVE Concat(_)
Concat(ss) == IF ss = <<>> THEN <<>> ELSE Head(ss) \o Concat(Tail(ss))

LowerAtom(a) ==
  CASE a = "A" -> "a" [] a = "B" -> "b" [] a = "C" -> "c" [] a = "D" -> "d"
    [] a = "E" -> "e" [] a = "F" -> "f" [] a = "G" -> "g" [] a = "H" -> "h"
    [] a = "I" -> "i" [] a = "J" -> "j" [] a = "K" -> "k" [] a = "L" -> "l"
    [] a = "M" -> "m" [] a = "N" -> "n" [] a = "O" -> "o" [] a = "P" -> "p"
    [] a = "Q" -> "q" [] a = "R" -> "r" [] a = "S" -> "s" [] a = "T" -> "t"
    [] a = "U" -> "u" [] a = "V" -> "v" [] a = "W" -> "w" [] a = "X" -> "x"
    [] a = "Y" -> "y" [] a = "Z" -> "z" [] OTHER -> a
LowerTok(t) == [k \in 1..Len(t) |-> LowerAtom(t[k])]

-----------------------------------------------------------------------------
(* The token splitter (isoption.go).  mode: 0 Normal, 1 Bundling,          *)
(* 2 SingleDash.  Result: is-option flag and the (name, attached value)    *)
(* pairs the token stands for.                                             *)
NoArg == [has |-> FALSE, arg |-> <<>>]
MkArg(rest) ==   \* rest is empty or starts with "="; "--name=" carries no value
  IF Len(rest) > 1 /\ rest[1] = EQ THEN [has |-> TRUE, arg |-> Drop(rest, 1)] ELSE NoArg
Pair(name, a) == [name |-> name, has |-> a.has, arg |-> a.arg]

SplitBody(body) ==   \* body = name [= ...]; name is everything before the first "="
  LET e == FirstIdx(body, EQ, 1) IN
  IF e = 0 THEN [name |-> body, rest |-> <<>>]
  ELSE [name |-> Take(body, e - 1), rest |-> Drop(body, e - 1)]

Split(tok, mode) ==
  IF tok = TermTok THEN [is |-> FALSE, pairs |-> <<>>]
  ELSE IF tok = <<DASH>> THEN [is |-> TRUE, pairs |-> <<Pair(<<DASH>>, NoArg)>>]
  ELSE IF Len(tok) >= 3 /\ tok[1] = DASH /\ tok[2] = DASH THEN
    \* every token starting with "--" is a long option, whatever the mode
    IF tok[3] # EQ
    THEN LET b == SplitBody(Drop(tok, 2)) IN
         [is |-> TRUE, pairs |-> <<Pair(b.name, MkArg(b.rest))>>]
    ELSE [is |-> TRUE, pairs |-> <<Pair(<<DASH>>, MkArg(Drop(tok, 2)))>>]
  ELSE IF Len(tok) >= 2 /\ tok[1] = DASH /\ tok[2] # EQ THEN
    LET b == SplitBody(Drop(tok, 1)) IN
    CASE mode = 0 -> [is |-> TRUE, pairs |-> <<Pair(b.name, MkArg(b.rest))>>]
      [] mode = 1 ->
         [is |-> TRUE,
          pairs |-> [k \in 1..Len(b.name) |->
                      IF k = Len(b.name) THEN Pair(<<b.name[k]>>, MkArg(b.rest))
                      ELSE Pair(<<b.name[k]>>, NoArg)]]
      [] mode = 2 ->
         LET has == Len(b.name) > 1 \/ Len(b.rest) > 0 IN
         [is |-> TRUE,
          pairs |-> <<[name |-> <<b.name[1]>>, has |-> has,
                       arg |-> IF has THEN Drop(b.name, 1) \o b.rest ELSE <<>>]>>]
  ELSE [is |-> FALSE, pairs |-> <<>>]

IsOptTok(tok, mode) == Split(tok, mode).is

-----------------------------------------------------------------------------
(* Program definition (cfg) accessors.  cfg.nodes[1] is the root.          *)
Node(cfg, n) == cfg.nodes[n]
Opt(cfg, o)  == cfg.opts[o]
NNodes(cfg)  == Len(cfg.nodes)
NOpts(cfg)   == Len(cfg.opts)

RECURSIVE TableOpts(_, _)
TableOpts(cfg, n) ==   \* option indices visible at node n (own + inherited by reference)
  IF Node(cfg, n).ishelp THEN {}
  ELSE {o \in 1..NOpts(cfg) : Opt(cfg, o).node = n}
       \cup (IF Node(cfg, n).unset \/ Node(cfg, n).parent = 0 THEN {}
             ELSE TableOpts(cfg, Node(cfg, n).parent))

Names(cfg, o) == {Opt(cfg, o).name} \cup Rng(Opt(cfg, o).aliases)
Keys(cfg, n)  == UNION {Names(cfg, o) : o \in TableOpts(cfg, n)}
OptOfKey(cfg, n, key) == CHOOSE o \in TableOpts(cfg, n) : key \in Names(cfg, o)

Matches(cfg, n, name) ==   \* exact name wins, otherwise every key the text is a prefix of
  LET ks == Keys(cfg, n) IN
  IF name \in ks THEN {name} ELSE {k \in ks : IsPfx(name, k)}

Children(cfg, n) == {c \in 1..NNodes(cfg) : Node(cfg, c).parent = n}
ChildNamed(cfg, n, tok) ==
  LET cs == {c \in Children(cfg, n) : Node(cfg, c).name = tok} IN
  IF cs = {} THEN 0 ELSE CHOOSE c \in cs : TRUE

RECURSIVE Chain(_, _)
Chain(cfg, n) ==   \* root ... n
  IF Node(cfg, n).parent = 0 THEN <<n>> ELSE Append(Chain(cfg, Node(cfg, n).parent), n)

HelpOpt(cfg) ==
  LET hs == {o \in 1..NOpts(cfg) : Opt(cfg, o).ishelpopt} IN
  IF hs = {} THEN 0 ELSE CHOOSE o \in hs : TRUE

MinOf(cfg, o) ==
  LET k == Opt(cfg, o).kind IN
  CASE k \in {"bool", "incr", "sopt", "iopt", "fopt"} -> 0
    [] k \in {"string", "int", "float"} -> 1
    [] OTHER -> Opt(cfg, o).min
MaxOf(cfg, o) ==
  LET k == Opt(cfg, o).kind IN
  CASE k \in {"bool", "incr"} -> 0
    [] k \in {"string", "int", "float", "sopt", "iopt", "fopt"} -> 1
    [] OTHER -> Opt(cfg, o).max

-----------------------------------------------------------------------------
(* Conversion oracle.  Numeric conversion is symbolic: whether a text      *)
(* converts, and to which canonical decimal / float64 bit pattern, is read *)
(* from a table computed with Go's strconv by the driver.  A text missing  *)
(* from the table poisons the case (st.miss), it never produces a verdict. *)
OrcMiss(t) == [t |-> t, miss |-> TRUE, i |-> FALSE, ic |-> "", ivok |-> FALSE, iv |-> 0,
               f |-> FALSE, fb |-> ""]
Orc(orc, t) ==
  LET S == {k \in 1..Len(orc) : orc[k].t = t} IN
  IF S = {} THEN OrcMiss(t) ELSE orc[CHOOSE k \in S : TRUE]

SOk(v)      == [ok |-> TRUE,  ek |-> "",   val |-> v, miss |-> FALSE]
SFail(k, v) == [ok |-> FALSE, ek |-> k,    val |-> v, miss |-> FALSE]
SMiss(v)    == [ok |-> FALSE, ek |-> "miss", val |-> v, miss |-> TRUE]

RECURSIVE MapPut(_, _, _)
MapPut(m, k, v) ==   \* m: sequence of <<key, value>>, later key replaces in place
  IF m = <<>> THEN <<<<k, v>>>>
  ELSE IF Head(m)[1] = k THEN <<<<k, v>>>> \o Tail(m)
  ELSE <<Head(m)>> \o MapPut(Tail(m), k, v)

IntRange(a, b) == [k \in 1..(b - a + 1) |-> ToString(a + k - 1)]

(* Option.Save with exactly one argument text a; cur is the current value. *)
SaveArg(cfg, orc, o, cur, a) ==
  LET opt == Opt(cfg, o)
      k   == opt.kind
  IN
  IF Len(opt.valid) > 0 /\ a \notin Rng(opt.valid) THEN SFail("valid", cur)
  ELSE CASE k = "bool" ->
            SOk(IF a = TrueTok THEN TRUE ELSE IF a = FalseTok THEN FALSE ELSE ~opt.defb)
    [] k = "incr" -> SOk(cur + 1)
    [] k \in {"string", "sopt"} -> SOk(a)
    [] k \in {"int", "iopt"} ->
         LET e == Orc(orc, a) IN
         IF e.miss THEN SMiss(cur) ELSE IF e.i THEN SOk(e.ic) ELSE SFail("conv", cur)
    [] k \in {"float", "fopt"} ->
         LET e == Orc(orc, a) IN
         IF e.miss THEN SMiss(cur) ELSE IF e.f THEN SOk(e.fb) ELSE SFail("conv", cur)
    [] k = "sslice" -> SOk(Append(cur, a))
    [] k = "islice" ->
         LET d == FirstDotDot(a, 1) IN
         IF d = 0 THEN
           LET e == Orc(orc, a) IN
           IF e.miss THEN SMiss(cur) ELSE IF e.i THEN SOk(Append(cur, e.ic)) ELSE SFail("conv", cur)
         ELSE
           LET e1 == Orc(orc, Take(a, d - 1))
               e2 == Orc(orc, Drop(a, d + 1))
           IN
           IF e1.miss \/ e2.miss THEN SMiss(cur)
           ELSE IF ~e1.i \/ ~e2.i THEN SFail("conv", cur)
           ELSE IF ~e1.ivok \/ ~e2.ivok THEN SMiss(cur)   \* bounds beyond what the model can expand
           ELSE IF e1.iv < e2.iv THEN SOk(cur \o IntRange(e1.iv, e2.iv))
           ELSE SFail("conv", cur)
    [] k = "fslice" ->
         LET e == Orc(orc, a) IN
         IF e.miss THEN SMiss(cur) ELSE IF e.f THEN SOk(Append(cur, e.fb)) ELSE SFail("conv", cur)
    [] k = "smap" ->
         LET e == FirstIdx(a, EQ, 1) IN
         IF e = 0 THEN SFail("keyvalue", cur)
         ELSE LET key == IF cfg.lower THEN LowerTok(Take(a, e - 1)) ELSE Take(a, e - 1)
              IN SOk(MapPut(cur, key, Drop(a, e)))

(* Option.Save without argument: only flags change. *)
SaveFlag(cfg, o, cur) ==
  LET k == Opt(cfg, o).kind IN
  CASE k = "bool" -> ~Opt(cfg, o).defb
    [] k = "incr" -> cur + 1
    [] OTHER -> cur

(* Is token v acceptable as a further (beyond min) value of option o?      *)
(* Result: "take" | "stop" | "miss".                                        *)
MaxAccepts(cfg, orc, o, v) ==
  LET k == Opt(cfg, o).kind IN
  CASE k = "islice" -> LET e == Orc(orc, v) IN IF e.miss THEN "miss" ELSE IF e.i THEN "take" ELSE "stop"
    [] k = "fslice" -> LET e == Orc(orc, v) IN IF e.miss THEN "miss" ELSE IF e.f THEN "take" ELSE "stop"
    [] k = "smap"   -> IF FirstIdx(v, EQ, 1) # 0 THEN "take" ELSE "stop"
    [] OTHER -> "take"

-----------------------------------------------------------------------------
(* Initial state: defaults, then the definition-time environment reads     *)
(* (GetEnv) and SetCalled, in option order.                                *)
DefaultVal(cfg, orc, o) ==
  LET opt == Opt(cfg, o) k == opt.kind IN
  CASE k = "bool" -> opt.defb
    [] k = "incr" -> opt.defi
    [] k \in {"string", "sopt"} -> opt.deft
    [] k \in {"int", "iopt"} -> Orc(orc, opt.deft).ic
    [] k \in {"float", "fopt"} -> Orc(orc, opt.deft).fb
    [] OTHER -> <<>>

EnvVal(cfg, name) ==
  LET S == {k \in 1..Len(cfg.env) : cfg.env[k].name = name} IN
  IF S = {} THEN <<>> ELSE cfg.env[CHOOSE k \in S : TRUE].val

EnvEffect(cfg, orc, o) ==   \* [set, val, miss]
  LET opt == Opt(cfg, o)
      k   == opt.kind
      dv  == DefaultVal(cfg, orc, o)
      ev  == IF opt.env = <<>> THEN <<>> ELSE EnvVal(cfg, opt.env)
  IN
  IF ev = <<>> THEN [set |-> FALSE, val |-> dv, miss |-> FALSE]
  ELSE IF k = "bool" THEN
         LET lv == LowerTok(ev) IN
         IF lv \in {TrueTok, FalseTok}
         THEN LET r == SaveArg(cfg, orc, o, dv, lv) IN [set |-> TRUE, val |-> r.val, miss |-> FALSE]
         ELSE [set |-> FALSE, val |-> dv, miss |-> FALSE]
  ELSE IF k \in {"string", "int", "float", "sopt", "iopt", "fopt"} THEN
         LET r == SaveArg(cfg, orc, o, dv, ev) IN [set |-> TRUE, val |-> r.val, miss |-> r.miss]
  ELSE [set |-> FALSE, val |-> dv, miss |-> FALSE]

(* The program's own SetValue(name, values...) calls between the           *)
(* definitions and Parse: Option.Save with all the values at once.  The     *)
(* valid-value check covers every value first; a scalar takes the first     *)
(* value; a slice takes all or nothing; a map stores pair by pair until the *)
(* first text without "=".  Map keys are not lower-cased here: that setting *)
(* reaches an option only when Parse meets it on the command line.          *)
RECURSIVE FoldSave(_, _, _, _, _)
FoldSave(cfg, orc, o, cur, vals) ==
  IF vals = <<>> THEN SOk(cur)
  ELSE LET r == SaveArg(cfg, orc, o, cur, Head(vals)) IN
       IF r.ok THEN FoldSave(cfg, orc, o, r.val, Tail(vals)) ELSE r

SetEffect(cfg, orc, o, cur, vals) ==
  LET opt == Opt(cfg, o)
      k   == opt.kind
      c0  == [cfg EXCEPT !.lower = FALSE]
  IN
  IF vals = <<>> THEN SOk(SaveFlag(cfg, o, cur))
  ELSE IF Len(opt.valid) > 0 /\ \E j \in 1..Len(vals) : vals[j] \notin Rng(opt.valid) THEN SFail("valid", cur)
  ELSE IF k \in {"sslice", "islice", "fslice"} THEN
         LET r == FoldSave(c0, orc, o, cur, vals) IN IF r.ok THEN r ELSE [r EXCEPT !.val = cur]
  ELSE IF k = "smap" THEN FoldSave(c0, orc, o, cur, vals)
  ELSE SaveArg(c0, orc, o, cur, vals[1])

RECURSIVE ApplySets(_, _, _, _)
ApplySets(cfg, orc, k, acc) ==
  IF k > Len(cfg.sets) THEN acc
  ELSE LET s == cfg.sets[k] IN
       IF s.opt = 0 THEN ApplySets(cfg, orc, k + 1, [acc EXCEPT !.errs = Append(@, "notfound")])
       ELSE LET r == SetEffect(cfg, orc, s.opt, acc.store[s.opt], s.vals) IN
            ApplySets(cfg, orc, k + 1,
                      [store |-> [acc.store EXCEPT ![s.opt] = r.val],
                       errs  |-> Append(acc.errs, r.ek),
                       miss  |-> acc.miss \/ r.miss])

(* Values, SetValue results and verifiability after definition time.        *)
Base(cfg, orc) ==
  LET eff == [o \in 1..NOpts(cfg) |-> EnvEffect(cfg, orc, o)] IN
  ApplySets(cfg, orc, 1, [store |-> [o \in 1..NOpts(cfg) |-> eff[o].val], errs |-> <<>>,
                          miss |-> \E o \in 1..NOpts(cfg) : eff[o].miss])
BaseVal(cfg, orc, o) == Base(cfg, orc).store[o]

NoErr == [kind |-> "", name |-> <<>>, tok |-> <<>>, cands |-> {}, names |-> {}]
NoRole == [r |-> "none", o |-> 0, ps |-> <<>>, ks |-> <<>>]

InitState(cfg, orc, argv) ==
  LET eff == [o \in 1..NOpts(cfg) |-> EnvEffect(cfg, orc, o)]
      base == Base(cfg, orc)
  IN
  [ phase  |-> "scan",
    act    |-> "Init",
    i      |-> 1,            \* iterator position (moves with value intake)
    ti     |-> 0,            \* index of the option token being processed
    node   |-> 1,
    pairs  |-> <<>>,
    pi     |-> 0,
    cur    |-> 0,
    cnt    |-> 0,
    passed |-> FALSE,
    store  |-> base.store,
    seterrs |-> base.errs,
    called |-> [o \in 1..NOpts(cfg) |-> eff[o].set \/ Opt(cfg, o).setcalled],
    as     |-> [o \in 1..NOpts(cfg) |-> IF eff[o].set THEN Opt(cfg, o).env ELSE <<>>],
    text   |-> [n \in 1..NNodes(cfg) |-> <<>>],
    unk    |-> [n \in 1..NNodes(cfg) |-> <<>>],
    warn   |-> <<>>,
    err    |-> NoErr,
    rest   |-> <<>>,
    restnil |-> TRUE,
    roles  |-> [k \in 1..Len(argv) |-> NoRole],
    term   |-> 0,            \* index of the terminator reached, 0 if none
    stop   |-> 0,            \* index of the require-order stop token, 0 if none
    corner |-> FALSE,        \* require-order stop inside a bundle after a value intake
    partial |-> FALSE,       \* require-order stop at an unknown letter after known letters of the same bundle
    miss   |-> base.miss,
    \* Dispatch
    derr   |-> "",
    dnames |-> {},
    ran    |-> <<>>,
    helpof |-> 0
  ]

-----------------------------------------------------------------------------
(* Steps of Parse.  Each takes and returns a state record.                 *)
SetRole(st, k, r, o) == [st EXCEPT !.roles[k] = [r |-> r, o |-> o, ps |-> <<>>, ks |-> <<>>]]
TailRoles(roles, from, r) ==
  [k \in 1..Len(roles) |-> IF k >= from THEN [r |-> r, o |-> 0, ps |-> <<>>, ks |-> <<>>] ELSE roles[k]]

ErrState(st, act, e) == [st EXCEPT !.phase = "parsed", !.act = act, !.err = e,
                                   !.rest = <<>>, !.restnil = TRUE]

\* ---- phase "scan": look at argv[st.i]
StepScan(cfg, orc, argv, st) ==
  LET i == st.i n == st.node IN
  IF i > Len(argv) THEN [st EXCEPT !.phase = "post", !.act = "EndOfArgs"]
  ELSE
  LET tok == argv[i] sp == Split(tok, cfg.mode) c == ChildNamed(cfg, n, tok) IN
  IF tok = TermTok THEN
     [st EXCEPT !.phase = "post", !.act = "Terminator", !.term = i,
                !.text[n] = @ \o Drop(argv, i),
                !.roles = TailRoles(SetRole(st, i, "term", 0).roles, i + 1, "tail"),
                !.i = Len(argv) + 1]
  ELSE IF sp.is THEN
     [st EXCEPT !.phase = "pair", !.act = "SplitToken", !.pairs = sp.pairs, !.pi = 1,
                !.ti = i, !.passed = FALSE,
                !.roles[i] = [r |-> "opt", o |-> 0, ps |-> <<>>, ks |-> <<>>]]
  ELSE IF c # 0 THEN
     [st EXCEPT !.act = "Descend", !.node = c, !.i = i + 1,
                !.roles[i] = [r |-> "cmd", o |-> 0, ps |-> <<>>, ks |-> <<>>]]
  ELSE IF Node(cfg, n).ro THEN
     [st EXCEPT !.phase = "post", !.act = "TextStop", !.stop = i,
                !.text[n] = @ \o Drop(argv, i - 1),
                !.roles = TailRoles(SetRole(st, i, "stop", 0).roles, i + 1, "tail"),
                !.i = Len(argv) + 1]
  ELSE
     [st EXCEPT !.act = "TextAppend", !.text[n] = Append(@, tok), !.i = i + 1,
                !.roles[i] = [r |-> "text", o |-> 0, ps |-> <<>>, ks |-> <<>>]]

\* move to the next pair of the current token or to the next token
NextPair(st, act) ==
  IF st.pi < Len(st.pairs)
  THEN [st EXCEPT !.phase = "pair", !.act = act, !.pi = @ + 1, !.cur = 0, !.cnt = 0]
  ELSE [st EXCEPT !.phase = "scan", !.act = act, !.i = @ + 1, !.cur = 0, !.cnt = 0,
                  !.pairs = <<>>, !.pi = 0]

\* ---- phase "pair": look up st.pairs[st.pi] at the current node
StepPair(cfg, orc, argv, st) ==
  LET p  == st.pairs[st.pi]
      n  == st.node
      ms == Matches(cfg, n, p.name)
  IN
  IF Cardinality(ms) > 1 THEN
     ErrState(st, "PairAmbiguous",
              [NoErr EXCEPT !.kind = "ambiguous", !.tok = argv[st.ti], !.cands = ms])
  ELSE IF ms = {} THEN
     IF Node(cfg, n).ro THEN
        \* everything from the iterator position on is handed over verbatim
        [st EXCEPT !.phase = "post", !.act = "PairUnknownStop", !.stop = st.i,
                   !.corner = (st.i # st.ti), !.partial = (st.pi > 1),
                   !.text[n] = @ \o Drop(argv, st.i - 1),
                   !.roles = IF st.i = st.ti
                             THEN TailRoles([st.roles EXCEPT ![st.i].r = "stop"], st.i + 1, "tail")
                             ELSE st.roles,
                   !.i = Len(argv) + 1]
     ELSE
        LET pass == Node(cfg, n).um # 0 /\ ~st.passed IN
        NextPair([st EXCEPT !.unk[n] = Append(@, p.name),
                            !.text[n] = IF pass THEN Append(@, argv[st.ti]) ELSE @,
                            !.passed = @ \/ pass,
                            !.roles[st.ti] = [r |-> IF Node(cfg, n).um # 0 THEN "pass" ELSE "unk",
                                              o |-> 0, ps |-> Append(@.ps, 0), ks |-> Append(@.ks, <<>>)]],
                 "PairUnknownRecord")
  ELSE
     LET key == CHOOSE k \in ms : TRUE
         o   == OptOfKey(cfg, n, key)
         s1  == [st EXCEPT !.called[o] = TRUE, !.as[o] = key, !.cur = o,
                           !.roles[st.ti].ps = Append(@, o), !.roles[st.ti].ks = Append(@, key)]
     IN
     IF p.has THEN
        LET r == SaveArg(cfg, orc, o, st.store[o], p.arg) IN
        IF r.miss THEN [s1 EXCEPT !.phase = "parsed", !.act = "OracleMiss", !.miss = TRUE]
        ELSE IF ~r.ok THEN
           ErrState(s1, "PairMatchBadValue", [NoErr EXCEPT !.kind = r.ek, !.name = key, !.tok = p.arg])
        ELSE [s1 EXCEPT !.phase = "intake", !.act = "PairMatchAttached", !.store[o] = r.val, !.cnt = 1]
     ELSE
        [s1 EXCEPT !.phase = "intake", !.act = "PairMatch",
                   !.store[o] = SaveFlag(cfg, o, st.store[o]), !.cnt = 0]

\* ---- phase "intake": mandatory (min) then optional (max) following values of option st.cur
StepIntake(cfg, orc, argv, st) ==
  LET o == st.cur key == st.as[o] IN
  IF st.cnt < MinOf(cfg, o) THEN
     IF st.i + 1 > Len(argv) THEN
        ErrState(st, "MinMissing", [NoErr EXCEPT !.kind = "missing", !.name = key])
     ELSE
     LET v == argv[st.i + 1] IN
     IF IsOptTok(v, cfg.mode) THEN
        ErrState([st EXCEPT !.i = @ + 1], "MinDashLooking", [NoErr EXCEPT !.kind = "dasharg", !.name = key])
     ELSE
     LET r == SaveArg(cfg, orc, o, st.store[o], v) IN
     IF r.miss THEN [st EXCEPT !.phase = "parsed", !.act = "OracleMiss", !.miss = TRUE]
     ELSE IF ~r.ok THEN
        ErrState([st EXCEPT !.i = @ + 1], "MinBadValue", [NoErr EXCEPT !.kind = r.ek, !.name = key, !.tok = v])
     ELSE [st EXCEPT !.act = "MinTake", !.i = @ + 1, !.cnt = @ + 1, !.store[o] = r.val,
                     !.roles[st.i + 1] = [r |-> "vmin", o |-> o, ps |-> <<>>, ks |-> <<>>]]
  ELSE IF st.cnt < MaxOf(cfg, o) THEN
     IF st.i + 1 > Len(argv) THEN NextPair(st, "MaxStopEnd")
     ELSE
     LET v == argv[st.i + 1] IN
     IF IsOptTok(v, cfg.mode) THEN NextPair(st, "MaxStopOptionLike")
     ELSE IF v = TermTok THEN NextPair(st, "MaxStopTerminator")
     ELSE
     LET a == MaxAccepts(cfg, orc, o, v) IN
     IF a = "miss" THEN [st EXCEPT !.phase = "parsed", !.act = "OracleMiss", !.miss = TRUE]
     ELSE IF a = "stop" THEN NextPair(st, "MaxStopIllTyped")
     ELSE
     LET r == SaveArg(cfg, orc, o, st.store[o], v) IN
     IF r.miss THEN [st EXCEPT !.phase = "parsed", !.act = "OracleMiss", !.miss = TRUE]
     ELSE IF ~r.ok THEN
        ErrState([st EXCEPT !.i = @ + 1], "MaxBadValue", [NoErr EXCEPT !.kind = r.ek, !.name = key, !.tok = v])
     ELSE [st EXCEPT !.act = "MaxTake", !.i = @ + 1, !.cnt = @ + 1, !.store[o] = r.val,
                     !.roles[st.i + 1] = [r |-> "vmax", o |-> o, ps |-> <<>>, ks |-> <<>>]]
  ELSE NextPair(st, "PairDone")

\* ---- phase "post": what Parse does after the argument loop
HelpCalled(cfg, st) == HelpOpt(cfg) # 0 /\ st.called[HelpOpt(cfg)]
Missing(cfg, st, n) == {o \in TableOpts(cfg, n) : Opt(cfg, o).req /\ ~st.called[o]}

(* Which missing required option is reported: the required check scans the *)
(* names and aliases of the level in sorted order (cfg.nodes[n].sorted is   *)
(* that order, supplied with the definition; string order is not           *)
(* expressible over opaque atoms).  0 when nothing is missing.             *)
FirstMissing(cfg, st, n) ==
  LET srt == Node(cfg, n).sorted
      hit == {k \in 1..Len(srt) : srt[k] \in Keys(cfg, n) /\ OptOfKey(cfg, n, srt[k]) \in Missing(cfg, st, n)}
  IN IF hit = {} THEN 0
     ELSE OptOfKey(cfg, n, srt[CHOOSE k \in hit : \A j \in hit : k <= j])
SortedOK(cfg, n) == Rng(Node(cfg, n).sorted) = Keys(cfg, n) /\ Len(Node(cfg, n).sorted) = Cardinality(Keys(cfg, n))

RECURSIVE WalkUnknown(_, _, _, _)
\* walk root..final: first unknown at a Fail level is the error, Warn levels warn
WalkUnknown(cfg, st, chain, acc) ==   \* acc: [warn, text]
  IF chain = <<>> THEN [err |-> FALSE, name |-> <<>>, warn |-> acc.warn, text |-> acc.text]
  ELSE
  LET n == Head(chain) us == st.unk[n] um == Node(cfg, n).um IN
  IF us # <<>> /\ um = 0 THEN [err |-> TRUE, name |-> us[1], warn |-> acc.warn, text |-> <<>>]
  ELSE WalkUnknown(cfg, st, Tail(chain),
                   [warn |-> IF um = 1 THEN acc.warn \o us ELSE acc.warn,
                    text |-> acc.text \o st.text[n]])

StepPost(cfg, orc, argv, st) ==
  IF st.node = 1 /\ ~HelpCalled(cfg, st) /\ Missing(cfg, st, 1) # {} THEN
     ErrState(st, "PostRequired", [NoErr EXCEPT !.kind = "required", !.names = {FirstMissing(cfg, st, 1)}])
  ELSE
  LET w == WalkUnknown(cfg, st, Chain(cfg, st.node), [warn |-> <<>>, text |-> <<>>]) IN
  IF w.err THEN
     [ErrState(st, "PostUnknownFail", [NoErr EXCEPT !.kind = "unknown", !.name = w.name])
        EXCEPT !.warn = w.warn]
  ELSE [st EXCEPT !.phase = "parsed", !.act = "Return", !.warn = w.warn, !.rest = w.text,
                  !.restnil = FALSE]

\* ---- the GetRequiredArg / GetRequiredArgInt / GetRequiredArgFloat64 helpers a command function may use to take
\* its positional arguments one by one: a missing argument writes "ERROR: Missing <name>" (the name declared with
\* HelpSynopsisArg at that position, if any) followed by the synopsis and answers ErrorHelpCalled; the position
\* advances on every call
MissingLine(cfg, n, idx) ==
  IF idx <= Len(Node(cfg, n).args)
  THEN <<"E","R","R","O","R",":"," ","M","i","s","s","i","n","g"," ">> \o Node(cfg, n).args[idx]
  ELSE <<"E","R","R","O","R",":"," ","M","i","s","s","i","n","g"," ","r","e","q","u","i","r","e","d"," ","a","r","g","u","m","e","n","t">>
RECURSIVE ReqFold(_, _, _, _, _, _)
ReqFold(cfg, orc, n, kinds, args, idx) ==
  IF kinds = <<>> THEN <<>>
  ELSE
  LET k == Head(kinds) IN
  IF args = <<>> THEN
     <<[ek |-> "missing", val |-> <<>>, msg |-> MissingLine(cfg, n, idx), syn |-> TRUE, left |-> 0]>>
       \o ReqFold(cfg, orc, n, Tail(kinds), <<>>, idx + 1)
  ELSE
  LET a == Head(args) rest == Tail(args) e == Orc(orc, a)
      one == CASE k = "i" -> IF e.i THEN [ek |-> "", val |-> <<e.ic>>, msg |-> <<>>, syn |-> FALSE, left |-> Len(rest)]
                             ELSE [ek |-> "conv", val |-> <<>>, msg |-> <<>>, syn |-> FALSE, left |-> Len(rest)]
               [] k = "f" -> IF e.f THEN [ek |-> "", val |-> <<e.fb>>, msg |-> <<>>, syn |-> FALSE, left |-> Len(rest)]
                             ELSE [ek |-> "conv", val |-> <<>>, msg |-> <<>>, syn |-> FALSE, left |-> Len(rest)]
               [] OTHER -> [ek |-> "", val |-> a, msg |-> <<>>, syn |-> FALSE, left |-> Len(rest)]
  IN <<one>> \o ReqFold(cfg, orc, n, Tail(kinds), rest, idx + 1)

\* ---- Dispatch (only after a successful Parse)
StepDispatch(cfg, orc, argv, st) ==
  LET n == st.node nd == Node(cfg, n) IN
  IF HelpCalled(cfg, st) THEN
     [st EXCEPT !.phase = "done", !.act = "DispatchHelp", !.derr = "help", !.helpof = n]
  ELSE IF Missing(cfg, st, n) # {} THEN
     [st EXCEPT !.phase = "done", !.act = "DispatchRequired", !.derr = "required",
                !.dnames = {FirstMissing(cfg, st, n)}]
  ELSE IF nd.ishelp THEN
     IF st.rest # <<>> THEN
        LET c == ChildNamed(cfg, nd.parent, st.rest[1]) IN
        IF c # 0 THEN [st EXCEPT !.phase = "done", !.act = "RunHelpTopic", !.derr = "help", !.helpof = c]
        ELSE [st EXCEPT !.phase = "done", !.act = "RunHelpNoTopic", !.derr = "notopic"]
     ELSE [st EXCEPT !.phase = "done", !.act = "RunHelp", !.derr = "help", !.helpof = nd.parent]
  ELSE IF nd.fn THEN
     [st EXCEPT !.phase = "done", !.act = "DispatchFn",
                !.ran = <<[node |-> n, args |-> st.rest, req |-> ReqFold(cfg, orc, n, nd.reqargs, st.rest, 1)]>>]
  ELSE IF nd.parent # 0 THEN
     IF Cardinality(Children(cfg, n)) > 1
     THEN [st EXCEPT !.phase = "done", !.act = "DispatchLanding", !.derr = "help", !.helpof = n]
     ELSE [st EXCEPT !.phase = "done", !.act = "DispatchNoFn", !.derr = "nofn"]
  ELSE [st EXCEPT !.phase = "done", !.act = "DispatchRootHelp", !.helpof = 1]

(* One step.  `disp` says whether Dispatch follows a successful Parse.     *)
Final(st, disp) ==
  \/ st.phase = "done"
  \/ st.phase = "parsed" /\ (~disp \/ st.err.kind # "" \/ st.miss)

Step(cfg, orc, argv, disp, st) ==
  CASE st.phase = "scan"   -> StepScan(cfg, orc, argv, st)
    [] st.phase = "pair"   -> StepPair(cfg, orc, argv, st)
    [] st.phase = "intake" -> StepIntake(cfg, orc, argv, st)
    [] st.phase = "post"   -> StepPost(cfg, orc, argv, st)
    [] st.phase = "parsed" -> StepDispatch(cfg, orc, argv, st)
    [] OTHER -> [st EXCEPT !.phase = "stuck"]

RECURSIVE RunFrom(_, _, _, _, _)
RunFrom(cfg, orc, argv, disp, st) ==
  IF Final(st, disp) \/ st.phase = "stuck" THEN st
  ELSE RunFrom(cfg, orc, argv, disp, Step(cfg, orc, argv, disp, st))

Run(cfg, orc, argv, disp) == RunFrom(cfg, orc, argv, disp, InitState(cfg, orc, argv))

(* The same run, also answering which actions it took (used by trace        *)
(* validation to report which actions of the specification the recorded    *)
(* executions exercised).                                                  *)
RECURSIVE RunFromA(_, _, _, _, _, _)
RunFromA(cfg, orc, argv, disp, st, acts) ==
  IF Final(st, disp) \/ st.phase = "stuck" THEN [fin |-> st, acts |-> acts]
  ELSE LET nx == Step(cfg, orc, argv, disp, st) IN RunFromA(cfg, orc, argv, disp, nx, acts \cup {nx.act})
RunA(cfg, orc, argv, disp) == RunFromA(cfg, orc, argv, disp, InitState(cfg, orc, argv), {})

(* Termination variant: decreases lexicographically on every step.         *)
PhaseRank(p) == CASE p = "scan" -> 5 [] p = "pair" -> 4 [] p = "intake" -> 3
                  [] p = "post" -> 2 [] p = "parsed" -> 1 [] OTHER -> 0
Variant(cfg, argv, st) ==
  << 2 * (IF st.i > Len(argv) + 1 THEN 0 ELSE Len(argv) + 1 - st.i)
       + (IF st.phase = "scan" THEN 1 ELSE 0),
     Len(st.pairs) - st.pi,
     IF st.phase = "intake" THEN MaxOf(cfg, st.cur) + 1 - st.cnt
     ELSE IF st.phase = "pair" THEN 2000000 ELSE 0,
     PhaseRank(st.phase) >>

RECURSIVE LexLess(_, _)
LexLess(a, b) ==
  IF a = <<>> THEN FALSE
  ELSE IF Head(a) < Head(b) THEN TRUE
  ELSE IF Head(a) > Head(b) THEN FALSE
  ELSE LexLess(Tail(a), Tail(b))

-----------------------------------------------------------------------------
(* Observable outcome of a final state, in the normal form the harness     *)
(* logs for the real code.                                                 *)
Outcome(cfg, st) ==
  [ err    |-> st.err,
    restnil |-> st.restnil,
    rest   |-> st.rest,
    vals   |-> st.store,
    called |-> st.called,
    as     |-> st.as,
    warn   |-> st.warn,
    node   |-> st.node,
    derr   |-> st.derr,
    dnames |-> st.dnames,
    ran    |-> st.ran,
    helpof |-> st.helpof,
    seterrs |-> st.seterrs,
    miss   |-> st.miss ]

=============================================================================
