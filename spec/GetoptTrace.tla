---------------------------- MODULE GetoptTrace ----------------------------
(***************************************************************************)
(* Trace validation: every recorded execution of the real library (one     *)
(* "case" line: definition id, argv, observed outcome) must be the outcome *)
(* the specification allows.  The file is ndjson; "def" lines carry a      *)
(* program definition and its conversion oracle, "case" lines refer to the *)
(* latest "def" line.  A mismatch does not stop validation: the differing  *)
(* fields are printed (DIFF) so every case of the file is examined.        *)
(***************************************************************************)
EXTENDS Getopt, GetoptProps, GetoptHelp, Json

CONSTANT TraceFile

VARIABLES l,      \* next line to consume
          d       \* line number of the definition in force

Trace == ndJsonDeserialize(TraceFile)

vars == <<l, d>>

-----------------------------------------------------------------------------
ValEq(kind, sv, rv) ==
  IF kind = "smap" THEN Rng(sv) = Rng(rv) /\ Len(sv) = Len(rv) ELSE sv = rv

ErrEq(cfg, e, r) ==
  /\ r.kind = e.kind
  /\ CASE e.kind = "ambiguous" ->
            r.tok = e.tok /\ Rng(r.cands) = e.cands /\ Len(r.cands) = Cardinality(e.cands)
       [] e.kind \in {"missing", "dasharg"} -> r.name = e.name /\ r.isparsing
       [] e.kind = "keyvalue" -> r.name = e.name
       [] e.kind = "conv" -> r.name = e.name /\ r.tok = e.tok
       [] e.kind = "valid" ->
            \E o \in 1..NOpts(cfg) : e.name \in Names(cfg, o) /\ r.name = Opt(cfg, o).name
       [] e.kind = "unknown" -> r.name = e.name
       [] OTHER -> TRUE

ReqEq(cfg, names, r) ==   \* which of several missing required options is named is left open
  /\ r.kind = "required"
  /\ r.isparsing
  /\ \E o \in names :
        IF Opt(cfg, o).reqmsg # <<>> THEN r.reqcustom /\ r.msg = Opt(cfg, o).reqmsg
        ELSE ~r.reqcustom /\ r.reqname = Opt(cfg, o).name

RanEq(e, r) ==
  /\ Len(e) = Len(r)
  /\ \A k \in 1..Len(e) :
        /\ r[k].node = e[k].node /\ r[k].args = e[k].args
        /\ r[k].ctxok /\ r[k].viewok
        /\ Len(r[k].req) = Len(e[k].req)
        /\ \A j \in 1..Len(e[k].req) :
              /\ r[k].req[j].ek = e[k].req[j].ek /\ r[k].req[j].left = e[k].req[j].left
              /\ (e[k].req[j].ek = "" => r[k].req[j].val = e[k].req[j].val)
              /\ (e[k].req[j].ek = "missing" => r[k].req[j].msg = e[k].req[j].msg /\ r[k].req[j].syn)

(* Fields of the observed outcome r that differ from the expected outcome. *)
Diff(cfg, e, r) ==
  IF r.panic # "" THEN {"panic"}
  ELSE IF r.hang THEN {"hang"}
  ELSE
    (IF e.err.kind = "required" THEN (IF ReqEq(cfg, e.err.names, r.err) THEN {} ELSE {"err"})
     ELSE IF ErrEq(cfg, e.err, r.err) THEN {} ELSE {"err"})
    \cup (IF (e.restnil => r.restnil) /\ r.rest = e.rest THEN {} ELSE {"rest"})
    \cup (IF \A o \in 1..NOpts(cfg) : ValEq(Opt(cfg, o).kind, e.vals[o], r.vals[o]) THEN {} ELSE {"vals"})
    \cup (IF \A o \in 1..NOpts(cfg) : r.called[o] = e.called[o] THEN {} ELSE {"called"})
    \cup (IF \A o \in 1..NOpts(cfg) : r.as[o] = e.as[o] THEN {} ELSE {"as"})
    \cup (IF \A o \in 1..NOpts(cfg) : r.agree[o] THEN {} ELSE {"agree"})
    \cup (IF r.warn = e.warn THEN {} ELSE {"warn"})
    \cup (IF r.wother THEN {"writer"} ELSE {})
    \cup (IF r.derr = e.derr /\ (e.derr = "required" => ReqEq(cfg, e.dnames, r.dreq)) THEN {} ELSE {"derr"})
    \cup (IF RanEq(e.ran, r.ran) THEN {} ELSE {"ran"})
    \cup (IF r.helpof = e.helpof THEN {} ELSE {"helpof"})
    \cup (IF r.exits = <<>> THEN {} ELSE {"exits"})
    \cup (IF r.seterrs = e.seterrs THEN {} ELSE {"seterr"})
    \cup (IF r.aliased THEN {"aliased"} ELSE {})
    \cup (IF r.nondet THEN {"nondet"} ELSE {})

(* History cases: an earlier Parse ran on the same object.  What that call  *)
(* leaves behind for the next one (text, unknown options, values) is not    *)
(* specified by the library, so only what a Parse must establish whatever   *)
(* happened before is compared: an option that a fresh Parse of the same    *)
(* arguments reports as called (on the command line, through its            *)
(* environment variable, or by SetCalled) is reported as called, under the  *)
(* same name when it is on the command line; and a required option that is  *)
(* satisfied in a fresh Parse is not reported missing.                      *)
(* When the earlier arguments held no option at all (whatever was declared   *)
(* at that moment, nothing can have been marked as called by them), a       *)
(* required option that a fresh Parse / Dispatch reports missing is reported *)
(* missing now as well: what the earlier calls looked at or cached must not  *)
(* hide an option declared since.                                           *)
DiffAfter(cfg, e, r, pre) ==
  IF r.panic # "" THEN {"panic"}
  ELSE IF r.hang THEN {"hang"}
  ELSE
    LET plain == \A k \in 1..Len(pre) : ~(Len(pre[k]) >= 1 /\ pre[k][1] = DASH) IN
    (IF plain /\ e.err.kind = "required" /\ ~ReqEq(cfg, e.err.names, r.err) THEN {"err"} ELSE {})
    \cup (IF plain /\ e.err.kind = "" /\ r.err.kind = "" /\ e.derr = "required"
              /\ ~(r.derr = "required" /\ ReqEq(cfg, e.dnames, r.dreq)) THEN {"derr"} ELSE {})
    \cup
    (IF \A o \in 1..NOpts(cfg) : e.called[o] => r.called[o] THEN {} ELSE {"called"})
    \cup (IF \A o \in 1..NOpts(cfg) :
               e.called[o] => \/ r.as[o] = e.as[o]
                              \/ e.as[o] \notin Names(cfg, o) /\ r.as[o] \in Names(cfg, o)
          THEN {} ELSE {"as"})
    \cup (IF e.err.kind # "required" /\ r.err.kind = "required" THEN {"err"} ELSE {})
    \cup (IF e.derr # "required" /\ r.derr = "required" THEN {"derr"} ELSE {})
    \cup (IF r.nondet THEN {"nondet"} ELSE {})

-----------------------------------------------------------------------------
Init == l = 1 /\ d = 0 /\ TLCSet(2, {})

IsDef(k) == k <= Len(Trace) /\ Trace[k].ev = "def"

NextDef(k) == k + Trace[k].n + 1   \* a def line records how many case lines follow it

CheckParse(dl, c) ==
  LET cfg == Trace[dl].cfg
      orc == Trace[dl].orc
      ra  == RunA(cfg, orc, c.argv, c.disp)
      fin == ra.fin
      e   == Outcome(cfg, fin)
      after == "haspre" \in DOMAIN c
      df  == IF e.miss THEN {} ELSE IF after THEN DiffAfter(cfg, e, c.res, IF "pre" \in DOMAIN c THEN c.pre ELSE <<>>) ELSE Diff(cfg, e, c.res)
      \* blocks enumerated from a family are the very cases GetoptMC explored; random blocks are new inputs
      bad == IF Trace[dl].sp /\ ~after THEN SpecViolations(cfg, orc, c.argv, fin) ELSE {}
  IN /\ TLCSet(2, TLCGet(2) \cup ra.acts)   \* actions of the specification these executions exercised (-workers 1)
     /\ (e.miss => PrintT(ToJson([k |-> "UNVERIFIABLE", id |-> c.id])))
     /\ (fin.phase = "stuck" => PrintT(ToJson([k |-> "SPECFAIL", id |-> c.id, bad |-> {"stuck"}])))
     /\ (bad # {} => PrintT(ToJson([k |-> "SPECFAIL", id |-> c.id, bad |-> bad])))
     /\ (df # {} => PrintT(ToJson([k |-> "DIFF", id |-> c.id, fields |-> df, exp |-> e])))

CheckComp(dl, c) ==
  LET cfg == Trace[dl].cfg
      orc == Trace[dl].orc
      e   == CompOutcome(cfg, orc, c.argv, c.comp)
      df  == IF e.miss THEN {} ELSE CompDiff(cfg, e, c.res)
  IN /\ (c.id % 8 = 0 => TLCSet(2, TLCGet(2) \cup CompActs(cfg, orc, c.argv)))   \* a sample: the walk is a second evaluation
     /\ (e.miss => PrintT(ToJson([k |-> "UNVERIFIABLE", id |-> c.id])))
     /\ (df # {} => PrintT(ToJson([k |-> "DIFF", id |-> c.id, fields |-> df, exp |-> e])))

CheckHelp(dl, c) ==
  LET cfg == Trace[dl].cfg
      df  == HelpDiff(cfg, c.hn, c.res)
  IN df # {} => PrintT(ToJson([k |-> "DIFF", id |-> c.id, fields |-> df \cup HelpDiffParts(cfg, c.hn, c.res.help),
                                exp |-> HelpDocOf(cfg, c.hn)]))

(* Determinism-only cases: definitions the specification does not admit (two options sharing a key along one     *)
(* root-to-leaf chain).  What the library does with them is not modelled; that it does the same every time is (C20).*)
CheckND(c) ==
  LET df == (IF c.res.panic # "" THEN {"panic"} ELSE {}) \cup (IF c.res.hang THEN {"hang"} ELSE {})
            \cup (IF c.res.nondet THEN {"nondet"} ELSE {})
  IN df # {} => PrintT(ToJson([k |-> "DIFF", id |-> c.id, fields |-> df, exp |-> [ndonly |-> TRUE]]))

CheckCase(dl, c) ==
  IF "ndonly" \in DOMAIN c THEN CheckND(c)
  ELSE IF c.comp = "" THEN CheckParse(dl, c) ELSE IF c.comp = "help" THEN CheckHelp(dl, c) ELSE CheckComp(dl, c)

(* One step consumes a definition line and every case recorded under it.   *)
(* (One TLC state per case costs milliseconds of level synchronisation;    *)
(* the cases of a block are independent evaluations.)                      *)
ReadBlock ==
  /\ IsDef(l)
  /\ LET nx == NextDef(l) IN
       /\ \A k \in (l + 1)..(nx - 1) : CheckCase(l, Trace[k])
       /\ TLCSet(1, nx - 1)
       /\ l' = nx
       /\ d' = l

Next == ReadBlock

Spec == Init /\ [][Next]_vars

(* Acceptance: every line was consumed (high-water mark of l, -workers 1). *)
AllConsumed == /\ PrintT(ToJson([k |-> "ACTS", acts |-> TLCGet(2)]))
               /\ TLCGet(1) = Len(Trace)
=============================================================================
