------------------------------ MODULE Interrupt ------------------------------
(***************************************************************************)
(* getoptions.InterruptContext: a context that is cancelled by SIGINT /    *)
(* SIGHUP / SIGTERM or by its CancelFunc; a listener goroutine waits for   *)
(* whichever comes first, writes the interrupt message to Writer only in   *)
(* the signal case, cancels the context and reports on `done` exactly once.*)
(* Not anchored in any listed property: part of the specification's growth.*)
(***************************************************************************)
EXTENDS Integers, Sequences, Json, TLC

CONSTANT TraceFile   \* "" for model checking, an ndjson file for trace validation

VARIABLES pc,        \* listener: "waiting" | "gotsignal" | "gotcancel" | "finished"
          signalled, \* a signal was delivered to the process
          ctxDone,   \* the context is cancelled
          written,   \* number of interrupt messages on Writer
          doneMsgs,  \* messages sent on the done channel
          l          \* trace position
vars == <<pc, signalled, ctxDone, written, doneMsgs, l>>

Init == pc = "waiting" /\ signalled = FALSE /\ ctxDone = FALSE /\ written = 0 /\ doneMsgs = 0 /\ l = 1

Signal == ~signalled /\ signalled' = TRUE /\ UNCHANGED <<pc, ctxDone, written, doneMsgs>>
Cancel == ~ctxDone /\ ctxDone' = TRUE /\ UNCHANGED <<pc, signalled, written, doneMsgs>>
\* select: either ready case may be taken
TakeSignal == pc = "waiting" /\ signalled /\ pc' = "gotsignal" /\ written' = written + 1 /\ UNCHANGED <<signalled, ctxDone, doneMsgs>>
TakeCancel == pc = "waiting" /\ ctxDone /\ pc' = "gotcancel" /\ UNCHANGED <<signalled, ctxDone, written, doneMsgs>>
Finish == pc \in {"gotsignal", "gotcancel"} /\ pc' = "finished" /\ ctxDone' = TRUE /\ doneMsgs' = doneMsgs + 1
          /\ UNCHANGED <<signalled, written>>

Next == (Signal \/ Cancel \/ TakeSignal \/ TakeCancel \/ Finish) /\ UNCHANGED l
Spec == Init /\ [][Next]_vars /\ WF_vars((TakeSignal \/ TakeCancel) /\ UNCHANGED l) /\ WF_vars(Finish /\ UNCHANGED l)

AtMostOnce == written <= 1 /\ doneMsgs <= 1
MessageOnlyOnSignal == written = 1 => signalled
DoneImpliesCancelled == doneMsgs = 1 => ctxDone
Responds == (signalled \/ ctxDone) ~> (doneMsgs = 1 /\ ctxDone)

-----------------------------------------------------------------------------
(* Trace validation: events signal, cancel, observed(written, ctxdone, done) *)
Trace == IF TraceFile = "" THEN <<>> ELSE ndJsonDeserialize(TraceFile)
IsEv(e) == l <= Len(Trace) /\ Trace[l].ev = e /\ l' = l + 1
TNew == IsEv("new") /\ pc' = "waiting" /\ signalled' = FALSE /\ ctxDone' = FALSE /\ written' = 0 /\ doneMsgs' = 0
TSignal == IsEv("signal") /\ Signal
TCancel == IsEv("cancel") /\ (IF ctxDone THEN UNCHANGED <<pc, signalled, ctxDone, written, doneMsgs>> ELSE Cancel)
\* what the harness observed after waiting for the done message: the listener must be able to have reached exactly that
TObserved ==
  /\ IsEv("observed")
  /\ \E viaSignal \in BOOLEAN :
        /\ viaSignal => signalled
        /\ ~viaSignal => ctxDone
        /\ Trace[l].written = (IF viaSignal THEN 1 ELSE 0)
        /\ Trace[l].ctxdone /\ Trace[l].done = 1
        /\ pc' = "finished" /\ written' = Trace[l].written /\ ctxDone' = TRUE /\ doneMsgs' = 1 /\ UNCHANGED signalled
TraceNext == (TNew \/ TSignal \/ TCancel \/ TObserved) /\ TLCSet(1, l)
TraceSpec == Init /\ [][TraceNext]_vars
AllConsumed == TLCGet(1) = Len(Trace)
=============================================================================
