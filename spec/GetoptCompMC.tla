---------------------------- MODULE GetoptCompMC ----------------------------
(***************************************************************************)
(* Exhaustive exploration of completion: every COMP_LINE of at most L      *)
(* words (after the program name) over a family's word alphabet, bash and  *)
(* zsh, with the declarative statement of C17 checked against the          *)
(* operational candidate generation.                                       *)
(***************************************************************************)
EXTENDS GetoptComp, Json, SequencesExt

CONSTANTS FamFile, MaxLen

VARIABLES f, words, done
vars == <<f, words, done>>

Fams == ndJsonDeserialize(FamFile)
Bound(k) == IF MaxLen > 0 THEN MaxLen ELSE Fams[k].L
Prog(k) == Fams[k].cfg.prog

Init == \E k \in 1..Len(Fams) : f = k /\ words = <<Prog(k)>> /\ done = FALSE

Extend ==
  /\ ~done /\ Len(words) - 1 < Bound(f)
  /\ \E t \in Rng(Fams[f].tokens) : words' = Append(words, t)
  /\ UNCHANGED <<f, done>>

Check == ~done /\ done' = TRUE /\ UNCHANGED <<f, words>>

Next == Extend \/ Check
Spec == Init /\ [][Next]_vars

Bad(target) ==
  (IF CandidatesExact(Fams[f].cfg, Fams[f].orc, words, target) THEN {} ELSE {"CandidatesExact"})
  \cup (IF OfferedAccepted(Fams[f].cfg, Fams[f].orc, words, target) THEN {} ELSE {"OfferedAccepted"})

CompOK ==
  done => LET bad == Bad("bash") \cup Bad("zsh") IN
          bad = {} \/ (PrintT(ToJson([k |-> "SPECFAIL", f |-> f, argv |-> words, bad |-> bad])) /\ FALSE)
=============================================================================
