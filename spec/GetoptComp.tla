----------------------------- MODULE GetoptComp -----------------------------
(* Completion (placeholder, filled in below in the build). *)
EXTENDS Getopt
CompOutcome(cfg, orc, words, target) == [miss |-> TRUE]
CompDiff(cfg, e, r) == {}
=============================================================================
