----------------------------- MODULE GetoptComp -----------------------------
(***************************************************************************)
(* Shell completion (Parse with COMP_LINE set).  The words of the line     *)
(* after the program name are parsed with the ordinary parser steps of     *)
(* module Getopt, in the program's configured mode, until the LAST word is *)
(* reached as a fresh token; the candidates are then generated at the      *)
(* command level reached.  If an earlier option consumes the last word as  *)
(* its value, or the terminator / require-order stop point is passed, the  *)
(* list is empty.  Post-parse checks (required, unknown policy) do not run.*)
(***************************************************************************)
EXTENDS Getopt

Count(s, x) == Cardinality({k \in 1..Len(s) : s[k] = x})
BagEq(a, b) == Len(a) = Len(b) /\ \A x \in Rng(a) \cup Rng(b) : Count(a, x) = Count(b, x)

EnumSet(S) ==   \* some enumeration of a finite set (order irrelevant: results are compared as bags)
  LET RECURSIVE F(_)
      F(T) == IF T = {} THEN <<>> ELSE LET x == CHOOSE y \in T : TRUE IN <<x>> \o F(T \ {x})
  IN F(S)

RECURSIVE JoinWith(_, _)
JoinWith(ss, sep) ==
  IF ss = <<>> THEN <<>> ELSE IF Len(ss) = 1 THEN ss[1] ELSE ss[1] \o sep \o JoinWith(Tail(ss), sep)

(* What the dynamic completion functions are called with.  The harness's   *)
(* functions answer their fixed list plus one candidate that spells out the *)
(* arguments they received: ArgCompletionsFn(target, previousArgs, partial) *)
(* gets the target shell, the text collected so far at the level reached    *)
(* and the typed word; ValueCompletionsFn(target, partial) gets the target  *)
(* shell and what was typed after the first "=".                            *)
TargetAtoms(target) == IF target = "bash" THEN <<"b","a","s","h">> ELSE <<"z","s","h">>
ArgEcho(target, prev, w) == <<"@">> \o TargetAtoms(target) \o <<"@">> \o JoinWith(prev, <<",">>) \o <<"@">> \o w
ValEcho(target, w) == LET e == FirstIdx(w, EQ, 1) IN Drop(w, e) \o <<"@">> \o TargetAtoms(target)

StripDashes(w) ==   \* strings.TrimPrefix(strings.TrimPrefix(w, "-"), "-")
  IF Len(w) >= 1 /\ w[1] = DASH
  THEN (IF Len(w) >= 2 /\ w[2] = DASH THEN Drop(w, 2) ELSE Drop(w, 1))
  ELSE w

HelpArgName(cfg, o) ==
  LET opt == Opt(cfg, o) k == opt.kind IN
  IF opt.argname # <<>> THEN opt.argname
  ELSE CASE k \in {"string", "sopt", "sslice"} -> <<"s","t","r","i","n","g">>
         [] k \in {"int", "iopt", "islice"} -> <<"i","n","t">>
         [] k \in {"float", "fopt", "fslice"} -> <<"f","l","o","a","t","6","4">>
         [] k = "smap" -> <<"k","e","y","=","v","a","l","u","e">>
         [] OTHER -> <<>>

\* values offered for an option: SuggestedValues (ValidValues are installed as suggestions)
Suggested(cfg, o) == IF Len(Opt(cfg, o).valid) > 0 THEN Opt(cfg, o).valid \o Opt(cfg, o).sugg ELSE Opt(cfg, o).sugg

(* Candidates for a last word w starting with "-" at node n.               *)
OptionCandidates(cfg, n, w, target) ==
  LET partial == StripDashes(w)
      keys    == Keys(cfg, n)
      hasEq   == FirstIdx(partial, EQ, 1) # 0
      nameC(k) == IF Opt(cfg, OptOfKey(cfg, n, k)).kind = "bool"
                  THEN <<DASH, DASH>> \o k ELSE <<DASH, DASH>> \o k \o <<EQ>>
      names   == [j \in 1..Cardinality({k \in keys : k # <<DASH>> /\ IsPfx(partial, k)}) |->
                    nameC(EnumSet({k \in keys : k # <<DASH>> /\ IsPfx(partial, k)})[j])]
      lone    == IF <<DASH>> \in keys /\ w = <<DASH>> THEN <<<<DASH>>>> ELSE <<>>
      \* values after `--name=`
      valKeys == IF hasEq THEN {k \in keys : k # <<DASH>> /\ IsPfx(k, partial)} ELSE {}
      valsOf(k) ==
        LET o  == OptOfKey(cfg, n, k)
            \* static suggestions, then the dynamic function's results (its fixed list and the echo of its arguments)
            sv == Suggested(cfg, o) \o (IF Opt(cfg, o).suggfn = <<>> THEN <<>> ELSE Opt(cfg, o).suggfn \o <<ValEcho(target, w)>>)
            full(e) == <<DASH, DASH>> \o k \o <<EQ>> \o e
            keep == SelectSeq(sv, LAMBDA e : IsPfx(w, full(e)))
        IN [j \in 1..Len(keep) |-> IF target = "bash" THEN keep[j] ELSE full(keep[j])]
      values  == Concat([j \in 1..Cardinality(valKeys) |-> valsOf(EnumSet(valKeys)[j])])
      base    == lone \o names \o values
  IN
  \* a single candidate that expects a value gets a companion so the shell inserts no space
  IF Len(base) = 1 /\ Len(base[1]) > 0 /\ base[1][Len(base[1])] = EQ /\ Len(names) = 1 THEN
     LET k  == CHOOSE kk \in keys : kk # <<DASH>> /\ IsPfx(partial, kk)
         o  == OptOfKey(cfg, n, k)
         sv == Suggested(cfg, o)
     IN IF Len(sv) > 0 THEN base \o [j \in 1..Len(sv) |-> base[1] \o sv[j]]
        ELSE LET an == HelpArgName(cfg, o) IN
             base \o << base[1] \o <<"<">> \o (IF an = <<>> THEN <<"v","a","l","u","e">> ELSE an) \o <<">">> >>
  ELSE base

(* Candidates for a last word that does not start with "-" at node n.       *)
WordCandidates(cfg, n, w, target, prev) ==
  LET cmds == EnumSet({Node(cfg, c).name : c \in {c \in Children(cfg, n) : IsPfx(w, Node(cfg, c).name)}})
      sugg == SelectSeq(Node(cfg, n).sugg, LAMBDA e : IsPfx(w, e))
      dyn  == IF Node(cfg, n).dynfn THEN Node(cfg, n).dynout \o <<ArgEcho(target, prev, w)>> ELSE <<>>
      base == cmds \o sugg \o dyn
  IN IF Len(base) = 1 /\ target = "bash" THEN <<base[1] \o <<" ">>>> ELSE base

Candidates(cfg, n, w, target, prev) ==
  IF Len(w) >= 1 /\ w[1] = DASH THEN OptionCandidates(cfg, n, w, target)
  ELSE WordCandidates(cfg, n, w, target, prev)

(* Parse the earlier words: stop as soon as the last word is about to be    *)
(* looked at as a fresh token.                                             *)
RECURSIVE CompRunFrom(_, _, _, _)
CompRunFrom(cfg, orc, ws, st) ==
  IF st.phase \notin {"scan", "pair", "intake"} THEN st
  ELSE IF st.phase = "scan" /\ st.i >= Len(ws) THEN st
  ELSE CompRunFrom(cfg, orc, ws, Step(cfg, orc, ws, FALSE, st))

(* COMP_LINE is split at runs of white space: empty words vanish, except   *)
(* that a line ending in white space has one empty last word.              *)
NormWords(words) ==
  IF words = <<>> THEN <<>>
  ELSE LET body == SelectSeq(words, LAMBDA x : x # <<>>) IN
       IF words[Len(words)] = <<>> THEN Append(body, <<>>) ELSE body

(* The same, also answering which parser actions the earlier words took.    *)
RECURSIVE CompActsFrom(_, _, _, _, _)
CompActsFrom(cfg, orc, ws, st, acts) ==
  IF st.phase \notin {"scan", "pair", "intake"} THEN acts
  ELSE IF st.phase = "scan" /\ st.i >= Len(ws) THEN acts
  ELSE LET nx == Step(cfg, orc, ws, FALSE, st) IN CompActsFrom(cfg, orc, ws, nx, acts \cup {nx.act})
CompActs(cfg, orc, words0) ==
  LET words == NormWords(words0)
      ws == IF words = <<>> THEN <<>> ELSE Tail(words)
  IN CompActsFrom(cfg, orc, ws, InitState(cfg, orc, ws), {})

CompOutcome(cfg, orc, words0, target) ==
  LET words == NormWords(words0)
      ws == IF words = <<>> THEN <<>> ELSE Tail(words)   \* the first word is the program name
      st == CompRunFrom(cfg, orc, ws, InitState(cfg, orc, ws))
  IN
  IF st.miss THEN [miss |-> TRUE, failed |-> FALSE, reached |-> FALSE, node |-> 0, comps |-> <<>>, prev |-> <<>>]
  ELSE IF st.err.kind # "" THEN [miss |-> FALSE, failed |-> TRUE, reached |-> FALSE, node |-> st.node, comps |-> <<>>, prev |-> <<>>]
  ELSE IF ws = <<>> THEN
       [miss |-> FALSE, failed |-> FALSE, reached |-> TRUE, node |-> 1, comps |-> Candidates(cfg, 1, <<>>, target, <<>>), prev |-> <<>>]
  ELSE IF st.phase = "scan" /\ st.i = Len(ws) THEN
       [miss |-> FALSE, failed |-> FALSE, reached |-> TRUE, node |-> st.node,
        comps |-> Candidates(cfg, st.node, ws[Len(ws)], target, st.text[st.node]), prev |-> st.text[st.node]]
  ELSE \* the last word was consumed as a value, or lies behind `--` / the require-order stop point
       [miss |-> FALSE, failed |-> FALSE, reached |-> FALSE, node |-> st.node, comps |-> <<>>, prev |-> <<>>]

(* Observed completion outcome r against the expected one.                 *)
CompDiff(cfg, e, r) ==
  IF r.panic # "" THEN {"panic"}
  ELSE IF r.hang THEN {"hang"}
  ELSE
    (IF r.exits = <<124>> THEN {} ELSE {"exits"})
    \cup (IF r.ran = <<>> THEN {} ELSE {"ran"})
    \cup (IF e.failed THEN (IF r.comps = <<>> /\ r.compnil THEN {} ELSE {"comps"})
          ELSE IF BagEq(e.comps, r.comps) /\ r.sorted THEN {} ELSE {"comps"})
    \cup (IF e.failed = r.wother THEN {} ELSE {"writer"})
    \cup (IF r.nondet THEN {"nondet"} ELSE {})

-----------------------------------------------------------------------------
(* The property statement (C17) written declaratively, for positions where *)
(* the last word is still interpreted (reached = TRUE).                    *)
DeclOptions(cfg, n, w) ==   \* declared names/aliases of the level whose name starts with the typed text
  {k \in Keys(cfg, n) : IsPfx(StripDashes(w), k)}
DeclWords(cfg, n, w, target, prev) ==
  {Node(cfg, c).name : c \in {c \in Children(cfg, n) : IsPfx(w, Node(cfg, c).name)}}
  \cup {e \in Rng(Node(cfg, n).sugg) : IsPfx(w, e)}
  \cup (IF Node(cfg, n).dynfn THEN Rng(Node(cfg, n).dynout) \cup {ArgEcho(target, prev, w)} ELSE {})

\* name part of an offered option candidate ("--k" or "--k=" or "--k=<hint>")
CandName(c) ==
  IF c = <<DASH>> THEN <<DASH>>   \* the lone dash option is offered as itself
  ELSE LET body == Drop(c, 2) e == FirstIdx(body, EQ, 1) IN IF e = 0 THEN body ELSE Take(body, e - 1)

TrimSpace(c) == IF Len(c) > 0 /\ c[Len(c)] = " " THEN Take(c, Len(c) - 1) ELSE c

CandidatesExact(cfg, orc, words0, target) ==
  LET e  == CompOutcome(cfg, orc, words0, target)
      words == NormWords(words0)
      ws == IF words = <<>> THEN <<>> ELSE Tail(words)
      w  == IF ws = <<>> THEN <<>> ELSE ws[Len(ws)]
  IN (e.reached /\ ~e.miss) =>
       IF Len(w) >= 1 /\ w[1] = DASH THEN
          FirstIdx(w, EQ, 1) = 0 =>
             \* every declared name with the typed prefix is offered, and nothing else
             /\ {CandName(e.comps[j]) : j \in 1..Len(e.comps)} \ {<<>>}
                   = DeclOptions(cfg, e.node, w) \ (IF w = <<DASH>> THEN {} ELSE {<<DASH>>})
       ELSE {TrimSpace(e.comps[j]) : j \in 1..Len(e.comps)} = DeclWords(cfg, e.node, w, target, e.prev)

(* Every offered option or command is accepted by the parser at that place *)
OfferedAccepted(cfg, orc, words0, target) ==
  LET e  == CompOutcome(cfg, orc, words0, target)
      words == NormWords(words0)
      ws == IF words = <<>> THEN <<>> ELSE Tail(words)
      w  == IF ws = <<>> THEN <<>> ELSE ws[Len(ws)]
      pre == IF ws = <<>> THEN <<>> ELSE Take(ws, Len(ws) - 1)
  IN (e.reached /\ ~e.miss) =>
       IF Len(w) >= 1 /\ w[1] = DASH THEN
          FirstIdx(w, EQ, 1) = 0 =>
            \A j \in 1..Len(e.comps) :
               LET c == e.comps[j] IN
               (c # <<DASH>> /\ Len(c) > 2) =>
                 LET tokc == <<DASH, DASH>> \o CandName(c)
                     sp == Split(tokc, cfg.mode)
                 IN sp.is /\ Cardinality(Matches(cfg, e.node, sp.pairs[1].name)) = 1
       ELSE \A c \in {Node(cfg, k).name : k \in {k \in Children(cfg, e.node) : IsPfx(w, Node(cfg, k).name)}} :
               LET st == CompRunFrom(cfg, orc, pre \o <<c, <<>>>>, InitState(cfg, orc, pre \o <<c, <<>>>>))
               IN st.err.kind = "" /\ st.phase = "scan" => st.node = ChildNamed(cfg, e.node, c) \/ IsOptTok(c, cfg.mode)

=============================================================================
