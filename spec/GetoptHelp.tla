----------------------------- MODULE GetoptHelp -----------------------------
(***************************************************************************)
(* The generated help as a structured document (C18).  HelpDocOf is what   *)
(* the help of command level n must contain; HelpDocComplete is the        *)
(* property statement itself, evaluated on the structure parsed back from  *)
(* the text the real code printed.                                         *)
(***************************************************************************)
EXTENDS GetoptComp

Ascii1 == {" ", "!", "#", "$", "%", "&", "'", "(", ")", "*", "+", ",", "-", ".", "/",
           "0", "1", "2", "3", "4", "5", "6", "7", "8", "9", ":", ";", "<", "=", ">", "?", "@",
           "A", "B", "C", "D", "E", "F", "G", "H", "I", "J", "K", "L", "M", "N", "O", "P", "Q", "R", "S", "T", "U", "V", "W", "X", "Y", "Z",
           "[", "]", "^", "_", "`",
           "a", "b", "c", "d", "e", "f", "g", "h", "i", "j", "k", "l", "m", "n", "o", "p", "q", "r", "s", "t", "u", "v", "w", "x", "y", "z",
           "{", "|", "}", "~"}

\* Go's len(name) > 1 is a byte length: one multi-byte letter already counts as long
LongName(k) == Len(k) > 1 \/ k[1] \notin Ascii1
DashName(k) == IF k = <<DASH>> THEN k ELSE IF LongName(k) THEN <<DASH, DASH>> \o k ELSE <<DASH>> \o k

AllNames(cfg, o) == <<Opt(cfg, o).name>> \o Opt(cfg, o).aliases

HelpSyn(cfg, o) ==
  LET opt == Opt(cfg, o)
      al  == AllNames(cfg, o)
  IN JoinWith([j \in 1..Len(al) |-> DashName(al[j])], <<"|">>)
     \o (IF opt.kind = "bool" THEN <<>> ELSE <<" ", "<">> \o HelpArgName(cfg, o) \o <<">">>)
     \o (IF MaxOf(cfg, o) > 1 THEN <<".", ".", ".">> ELSE <<>>)

SynItem(cfg, o) ==
  LET opt == Opt(cfg, o) hs == HelpSyn(cfg, o) IN
  IF opt.kind \in {"sslice", "islice", "fslice", "smap"}
  THEN (IF opt.req THEN <<"<">> \o hs \o <<">">> ELSE <<"[">> \o hs \o <<"]">>) \o <<".", ".", ".">>
  ELSE IF opt.req THEN hs ELSE <<"[">> \o hs \o <<"]">>

WS == {" ", "x0a", "x09", "x0d", "x0c"}
StripWS(t) == SelectSeq(t, LAMBDA a : a \notin WS)
NlToSp(t) == [k \in 1..Len(t) |-> IF t[k] = "x0a" THEN " " ELSE t[k]]

DefaultStr(cfg, o) ==
  LET opt == Opt(cfg, o) k == opt.kind IN
  CASE k = "bool" -> IF opt.defb THEN TrueTok ELSE FalseTok
    [] k \in {"incr", "int", "iopt", "float", "fopt"} -> opt.deffmt
    [] k = "string" -> <<"x22">> \o opt.deft \o <<"x22">>
    [] k = "sopt" -> opt.deft
    [] k \in {"sslice", "islice", "fslice"} -> <<"[", "]">>
    [] OTHER -> <<"{", "}">>

Entry(cfg, o) ==
  LET opt == Opt(cfg, o) IN
  [ head |-> HelpSyn(cfg, o), desc |-> StripWS(opt.desc),
    hasdef |-> ~opt.req, def |-> IF opt.req THEN <<>> ELSE DefaultStr(cfg, o),
    hasenv |-> opt.env # <<>>, env |-> opt.env ]

HelpName(cfg) == IF HelpOpt(cfg) = 0 THEN <<>> ELSE Opt(cfg, HelpOpt(cfg)).name

RECURSIVE PathOf(_, _)
PathOf(cfg, n) == IF Node(cfg, n).parent = 0 THEN cfg.prog ELSE PathOf(cfg, Node(cfg, n).parent) \o <<" ">> \o Node(cfg, n).name

HelpDocOf(cfg, n) ==
  LET oo   == Node(cfg, n).optorder
      req  == SelectSeq(oo, LAMBDA o : Opt(cfg, o).req)
      nrm  == SelectSeq(oo, LAMBDA o : ~Opt(cfg, o).req)
      all  == req \o nrm
      cmds == SelectSeq(Node(cfg, n).cmdorder, LAMBDA c : HelpName(cfg) = <<>> \/ Node(cfg, c).name # HelpName(cfg))
      tail == (IF Len(cmds) > 0 THEN <<"<","c","o","m","m","a","n","d",">"," ">> ELSE <<>>)
              \o (IF Len(Node(cfg, n).args) = 0 THEN <<"[","<","a","r","g","s",">","]">> ELSE JoinWith(Node(cfg, n).args, <<" ">>))
      desc == IF n = 1 THEN cfg.desc ELSE Node(cfg, n).desc
  IN
  [ synopsis |-> JoinWith([j \in 1..Len(all) |-> SynItem(cfg, all[j])] \o <<tail>>, <<" ">>),
    cmds     |-> [j \in 1..Len(cmds) |-> <<Node(cfg, cmds[j]).name, StripWS(Node(cfg, cmds[j]).desc)>>],
    required |-> [j \in 1..Len(req) |-> Entry(cfg, req[j])],
    options  |-> [j \in 1..Len(nrm) |-> Entry(cfg, nrm[j])],
    footer   |-> HelpOpt(cfg) # 0 /\ Cardinality(Children(cfg, n)) > 1,
    \* ARGUMENTS section: the arguments declared with HelpSynopsisArg, unless there is just one without name or description
    args     |-> LET as == Node(cfg, n).args ds == Node(cfg, n).argsd IN
                 IF Len(as) = 0 \/ (Len(as) = 1 /\ (as[1] = <<>> \/ ds[1] = <<>>)) THEN <<>>
                 ELSE [j \in 1..Len(as) |-> IF ds[j] = <<>> THEN as[j] ELSE as[j] \o <<" ">> \o NlToSp(ds[j])],
    name     |-> IF Node(cfg, n).parent # 0 \/ desc # <<>>
                 THEN PathOf(cfg, n) \o (IF desc = <<>> THEN <<>> ELSE <<" ", "-", " ">> \o NlToSp(desc))
                 ELSE <<>> ]

EntryEq(e, r) ==
  /\ r.head = e.head /\ r.desc = e.desc /\ r.hasdef = e.hasdef /\ r.hasenv = e.hasenv
  /\ (e.hasdef => r.def = e.def) /\ (e.hasenv => r.env = e.env)

HelpDiffParts(cfg, n, r) ==
  LET e == HelpDocOf(cfg, n) IN
  (IF r.ok THEN {} ELSE {"shape"})
  \cup (IF r.synopsis = e.synopsis THEN {} ELSE {"synopsis"})
  \cup (IF r.cmds = e.cmds THEN {} ELSE {"commands"})
  \cup (IF Len(r.required) = Len(e.required) /\ \A j \in 1..Len(e.required) : EntryEq(e.required[j], r.required[j]) THEN {} ELSE {"required-list"})
  \cup (IF Len(r.options) = Len(e.options) /\ \A j \in 1..Len(e.options) : EntryEq(e.options[j], r.options[j]) THEN {} ELSE {"option-list"})
  \cup (IF r.footer = e.footer THEN {} ELSE {"footer"})
  \cup (IF r.args = e.args THEN {} ELSE {"arguments"})
  \cup (IF r.name = e.name THEN {} ELSE {"name"})
  \cup (IF r.three THEN {} ELSE {"three-paths"})

-----------------------------------------------------------------------------
(* The property statement on the parsed text.                              *)
RECURSIVE SplitAt(_, _)
SplitAt(s, sep) ==   \* split a sequence of atoms at every occurrence of the atom sep
  LET i == FirstIdx(s, sep, 1) IN
  IF i = 0 THEN <<s>> ELSE <<Take(s, i - 1)>> \o SplitAt(Drop(s, i), sep)

Undash(k) == IF k = <<DASH>> THEN k ELSE IF Len(k) >= 2 /\ k[1] = DASH /\ k[2] = DASH THEN Drop(k, 2) ELSE IF Len(k) >= 1 /\ k[1] = DASH THEN Drop(k, 1) ELSE k
HeadAliases(head) ==   \* names listed in an entry head "--a|-b <arg>..."
  LET sp == FirstIdx(head, " ", 1)
      al == IF sp = 0 THEN head ELSE Take(head, sp - 1)
      parts == SplitAt(al, "|")
  IN {Undash(parts[j]) : j \in 1..Len(parts)}

HelpDocComplete(cfg, n, r) ==
  LET ents == [j \in 1..(Len(r.required) + Len(r.options)) |->
                 IF j <= Len(r.required) THEN [e |-> r.required[j], req |-> TRUE]
                 ELSE [e |-> r.options[j - Len(r.required)], req |-> FALSE]]
      forOpt(o) == {j \in 1..Len(ents) : HeadAliases(ents[j].e.head) \cap Names(cfg, o) # {}}
  IN
  /\ \A o \in TableOpts(cfg, n) :
        /\ Cardinality(forOpt(o)) = 1                                   \* exactly once in exactly one list
        /\ LET j == CHOOSE x \in forOpt(o) : TRUE IN
             /\ HeadAliases(ents[j].e.head) = Names(cfg, o)             \* with all of its aliases, aliases never separate
             /\ ents[j].req = Opt(cfg, o).req                           \* under required parameters iff required
             /\ ents[j].e.hasdef = ~Opt(cfg, o).req                     \* default of every non-required option
             /\ ents[j].e.hasenv = (Opt(cfg, o).env # <<>>)             \* environment variable of every bound one
             /\ ents[j].e.hasenv => ents[j].e.env = Opt(cfg, o).env
  /\ \A j \in 1..Len(ents) : \E o \in TableOpts(cfg, n) : j \in forOpt(o)   \* nothing but the level's options
  /\ LET names == {Node(cfg, c).name : c \in Children(cfg, n)} \ {HelpName(cfg)} IN
       /\ {r.cmds[j][1] : j \in 1..Len(r.cmds)} = names               \* every sub-command except help
       /\ Len(r.cmds) = Cardinality(names)                             \* exactly once
       /\ \A j \in 1..Len(r.cmds) : \E c \in Children(cfg, n) :
             Node(cfg, c).name = r.cmds[j][1] /\ StripWS(Node(cfg, c).desc) = r.cmds[j][2]
  /\ r.three

HelpOutcome(cfg, n) == [miss |-> FALSE, doc |-> HelpDocOf(cfg, n)]
HelpDiff(cfg, n, r) ==
  IF r.panic # "" THEN {"panic"}
  ELSE IF r.hang THEN {"hang"}
  ELSE (IF HelpDiffParts(cfg, n, r.help) = {} THEN {} ELSE {"help"})
       \cup (IF HelpDocComplete(cfg, n, r.help) THEN {} ELSE {"helpcomplete"})
       \cup (IF r.nondet THEN {"nondet"} ELSE {})
=============================================================================
