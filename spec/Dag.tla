-------------------------------- MODULE Dag --------------------------------
(***************************************************************************)
(* Specification of dag.Graph: graph construction through the public API   *)
(* (AddTask / TaskDependsOn / TaskRetries / Task), the cycle check, and    *)
(* Run: one scheduler goroutine that owns all vertex statuses and loops    *)
(* over `select { case <-done: ...; default: ... }`, plus one worker       *)
(* goroutine per launched vertex (semaphore slot, per-Task mutex, retry    *)
(* loop, buffered output flush, blocking send on the unbuffered `done`     *)
(* channel, deferred unlock and slot release).                             *)
(*                                                                         *)
(* One action per linearization point of dag.go; the action names are the  *)
(* event names the build-tag hooks emit (launch, acquired, locked, flush,  *)
(* sending, recv, unlocking, releasing, idle, cancelobserved, alldone) and *)
(* the events of the harness's task functions (enter, exit, frag), cancel  *)
(* and returned.                                                           *)
(***************************************************************************)
EXTENDS Integers, Sequences, FiniteSets, TLC

CONSTANTS Tasks,      \* universe of task ids
          MaxRetries  \* bound on retry counts explored by the model checker

VARIABLES
  \* ---- graph definition (construction history)
  verts,      \* ids of the vertices in the graph
  deps,       \* deps[v]: set of ids v depends on (the code's Children)
  retries,    \* retries[v]
  gerrs,      \* number of definition errors recorded so far
  dot,        \* the dot diagram: sequence of <<"v", id>> and <<"e", from, to>> entries in declaration order
  tmKnown,    \* TaskMap: ids added
  tmErrs,     \* TaskMap: number of errors recorded (duplicate Add, Get of an unknown id)
  limit,      \* SetMaxParallel
  serial,     \* SetSerial
  buffered,   \* SetOutputBuffer
  phase,      \* "build" | "run" | "returned"
  \* ---- Run
  status,     \* status[v] in {"pending", "inprogress", "skip", "done"}
  errs,       \* set of entries <<"task", v>>, <<"skipped", v>>, <<"cancel", "">>
  handled,    \* the scheduler has observed the cancellation
  cancelled,  \* the context is cancelled
  w,          \* worker program counter per vertex (see WorkerStates)
  msgs,       \* msgs[v]: bag (sequence) of messages goroutines of v are blocked sending: "nil" | "err" | "skipparents" | "skipped"
  att,        \* attempts started per vertex
  last,       \* outcome of the last finished attempt: "none" | "nil" | "err" | "skipparents"
  sem,        \* semaphore slots held
  lockBusy,   \* lockBusy[v]: the Task of v is locked by a worker of another graph (environment)
  result,     \* "none" | "nil" | "errors" | "cycle" | "gerrs"
  buf,        \* buf[v]: output fragments of the current attempt not yet flushed
  wlog,       \* blocks received by the output writer, in order
  \* ---- ghosts
  retnil,     \* tasks whose function has returned nil
  failed,     \* tasks whose final attempt returned an error (not skipparents)
  spd,        \* tasks that returned ErrorSkipParents
  wk,         \* wk[v]: task exits known (happens-before) to the worker of v
  sk,         \* task exits known to the scheduler
  exited,     \* task exits so far, in order
  launched    \* number of `launch run` events after the cancellation was observed

gvars == <<verts, deps, retries, gerrs, dot, tmKnown, tmErrs, limit, serial, buffered>>
rvars == <<status, errs, handled, cancelled, w, msgs, att, last, sem, lockBusy, result, buf, wlog,
           retnil, failed, spd, wk, sk, exited, launched>>
vars == <<gvars, phase, rvars>>

WorkerStates == {"none", "spawned", "waitsem", "gotsem", "waitlock", "locked", "run", "exited", "flushed", "sending", "recvd", "unlocked", "fin"}

-----------------------------------------------------------------------------
(* Graph helpers *)
RECURSIVE ReachFrom(_, _, _)
ReachFrom(d, S, seen) ==   \* everything reachable from the set S along d (excluding nothing)
  LET nxt == (UNION {d[x] : x \in S}) \ seen IN
  IF nxt = {} THEN seen ELSE ReachFrom(d, nxt, seen \cup nxt)
TransDeps(d, v) == ReachFrom(d, {v}, {})                      \* transitive dependencies of v
HasCycle(vs, d) == \E v \in vs : v \in TransDeps(d, v)
Dependents(vs, d, v) == {u \in vs : v \in d[u]}                 \* the code's Parents
RECURSIVE UpFrom(_, _, _, _)
UpFrom(vs, d, S, seen) ==
  LET nxt == (UNION {Dependents(vs, d, x) : x \in S}) \ seen IN
  IF nxt = {} THEN seen ELSE UpFrom(vs, d, nxt, seen \cup nxt)
TransDependents(vs, d, v) == UpFrom(vs, d, {v}, {})

-----------------------------------------------------------------------------
(* Construction.  A history is any sequence of these calls.                *)
EmptyGraph ==
  /\ verts = {} /\ deps = [t \in Tasks |-> {}] /\ retries = [t \in Tasks |-> 0] /\ gerrs = 0
  /\ dot = <<>> /\ tmKnown = {} /\ tmErrs = 0

RunInit ==   \* values of the run variables before Run starts
  /\ status = [t \in Tasks |-> "pending"] /\ errs = {} /\ handled = FALSE /\ cancelled = FALSE
  /\ w = [t \in Tasks |-> "none"] /\ msgs = [t \in Tasks |-> <<>>] /\ att = [t \in Tasks |-> 0]
  /\ last = [t \in Tasks |-> "none"] /\ sem = 0 /\ lockBusy = [t \in Tasks |-> FALSE]
  /\ result = "none" /\ buf = [t \in Tasks |-> <<>>] /\ wlog = <<>>
  /\ retnil = {} /\ failed = {} /\ spd = {} /\ wk = [t \in Tasks |-> {}] /\ sk = {} /\ exited = <<>>
  /\ launched = 0

\* the same, as next-state assignments (a trace file holds many runs)
ResetAll ==
  /\ verts' = {} /\ deps' = [t \in Tasks |-> {}] /\ retries' = [t \in Tasks |-> 0] /\ gerrs' = 0
  /\ dot' = <<>> /\ tmKnown' = {} /\ tmErrs' = 0
  /\ status' = [t \in Tasks |-> "pending"] /\ errs' = {} /\ handled' = FALSE /\ cancelled' = FALSE
  /\ w' = [t \in Tasks |-> "none"] /\ msgs' = [t \in Tasks |-> <<>>] /\ att' = [t \in Tasks |-> 0]
  /\ last' = [t \in Tasks |-> "none"] /\ sem' = 0 /\ lockBusy' = [t \in Tasks |-> FALSE]
  /\ result' = "none" /\ buf' = [t \in Tasks |-> <<>>] /\ wlog' = <<>>
  /\ retnil' = {} /\ failed' = {} /\ spd' = {} /\ wk' = [t \in Tasks |-> {}] /\ sk' = {} /\ exited' = <<>>
  /\ launched' = 0

\* AddTask: a new id creates a vertex; re-adding a known id keeps the vertex and its edges
NewV(vs, t) == IF t \in vs THEN <<>> ELSE <<<<"v", t>>>>   \* dot entry of a vertex created now

AddTask(t) ==
  /\ phase = "build"
  /\ verts' = verts \cup {t}
  /\ dot' = dot \o NewV(verts, t)
  /\ UNCHANGED <<deps, retries, gerrs, tmKnown, tmErrs, limit, serial, buffered, phase, rvars>>

\* TaskDependsOn(t, d): both vertices are created on demand; a duplicate edge is a definition error
DependsOn(t, d) ==
  /\ phase = "build"
  /\ verts' = verts \cup {t, d}
  /\ IF d \in deps[t] THEN gerrs' = gerrs + 1 /\ deps' = deps
     ELSE gerrs' = gerrs /\ deps' = [deps EXCEPT ![t] = @ \cup {d}]
  /\ dot' = dot \o NewV(verts, t) \o NewV(verts \cup {t}, d) \o (IF d \in deps[t] THEN <<>> ELSE <<<<"e", t, d>>>>)
  /\ UNCHANGED <<retries, tmKnown, tmErrs, limit, serial, buffered, phase, rvars>>

\* TaskDependsOn(t, d1, d2, ...): the dependencies are processed in order; the first duplicate edge records a
\* definition error and ends the call (later dependencies of the same call are not even created)
RECURSIVE DepFold(_, _, _)
DepFold(t, ds, acc) ==   \* acc: [verts, deps, gerrs, dot]
  IF ds = <<>> THEN acc
  ELSE LET d == Head(ds) IN
       IF d \in acc.deps[t]
       THEN [verts |-> acc.verts \cup {d}, deps |-> acc.deps, gerrs |-> acc.gerrs + 1, dot |-> acc.dot \o NewV(acc.verts, d)]
       ELSE DepFold(t, Tail(ds), [verts |-> acc.verts \cup {d}, deps |-> [acc.deps EXCEPT ![t] = @ \cup {d}], gerrs |-> acc.gerrs,
                                  dot |-> acc.dot \o NewV(acc.verts, d) \o <<<<"e", t, d>>>>])
DependsOnSeq(t, ds) ==
  /\ phase = "build"
  /\ LET r == DepFold(t, ds, [verts |-> verts \cup {t}, deps |-> deps, gerrs |-> gerrs, dot |-> dot \o NewV(verts, t)]) IN
       verts' = r.verts /\ deps' = r.deps /\ gerrs' = r.gerrs /\ dot' = r.dot
  /\ UNCHANGED <<retries, tmKnown, tmErrs, limit, serial, buffered, phase, rvars>>

SetRetries(t, r) ==
  /\ phase = "build"
  /\ verts' = verts \cup {t}
  /\ retries' = [retries EXCEPT ![t] = r]
  /\ dot' = dot \o NewV(verts, t)
  /\ UNCHANGED <<deps, gerrs, tmKnown, tmErrs, limit, serial, buffered, phase, rvars>>

\* Graph.Task(id) on an unknown id (or AddTask(nil) ...): one more definition error
DefError ==
  /\ phase = "build"
  /\ gerrs' = gerrs + 1
  /\ UNCHANGED <<verts, deps, retries, dot, tmKnown, tmErrs, limit, serial, buffered, phase, rvars>>

\* TaskMap.Add: a duplicate id is an error (the task is replaced all the same); TaskMap.Get of an unknown id is an error
TmAdd(t) ==
  /\ phase = "build"
  /\ tmKnown' = tmKnown \cup {t}
  /\ tmErrs' = IF t \in tmKnown THEN tmErrs + 1 ELSE tmErrs
  /\ UNCHANGED <<verts, deps, retries, gerrs, dot, limit, serial, buffered, phase, rvars>>
TmGetUnknown ==
  /\ phase = "build"
  /\ tmErrs' = tmErrs + 1
  /\ UNCHANGED <<verts, deps, retries, gerrs, dot, tmKnown, limit, serial, buffered, phase, rvars>>
\* Graph.Validate(tm): TaskMap errors first, then the graph's definition errors
ValidateResult == IF tmErrs > 0 THEN "taskmap" ELSE IF gerrs > 0 THEN "gerrs" ELSE "ok"

(* the dot diagram names every vertex and every edge exactly once *)
DotComplete ==
  /\ {e[2] : e \in {dot[k] : k \in {j \in 1..Len(dot) : dot[j][1] = "v"}}} = verts
  /\ Cardinality({k \in 1..Len(dot) : dot[k][1] = "v"}) = Cardinality(verts)
  /\ {<<e[2], e[3]>> : e \in {dot[k] : k \in {j \in 1..Len(dot) : dot[j][1] = "e"}}} = {<<t, d>> \in Tasks \X Tasks : d \in deps[t]}
  /\ \A a, b \in 1..Len(dot) : (a # b /\ dot[a][1] = "e") => dot[a] # dot[b]

\* Run is called: definition errors, empty graph and cycles are answered at once
StartRun ==
  /\ phase = "build"
  /\ IF gerrs > 0 THEN phase' = "returned" /\ result' = "gerrs"
     ELSE IF verts = {} THEN phase' = "returned" /\ result' = "nil"
     ELSE IF HasCycle(verts, deps) THEN phase' = "returned" /\ result' = "cycle"
     ELSE phase' = "run" /\ result' = "none"
  /\ UNCHANGED <<gvars, status, errs, handled, cancelled, w, msgs, att, last, sem, lockBusy, buf, wlog,
                 retnil, failed, spd, wk, sk, exited, launched>>

\* Run returned nil and every goroutine it started has ended: the program goes on building the very same Graph
\* (new tasks, another limit) and calls Run on it again.  Everything that ran stays done; the semaphore of the next
\* Run is a new one with the limit then in force.
Continue ==
  /\ phase = "returned" /\ result = "nil" /\ errs = {} /\ ~cancelled
  /\ \A v \in Tasks : w[v] \in {"none", "fin"} /\ msgs[v] = <<>>
  /\ sem = 0
  /\ phase' = "build" /\ result' = "none"
  /\ w' = [t \in Tasks |-> "none"]
  /\ UNCHANGED <<gvars, status, errs, handled, cancelled, msgs, att, last, sem, lockBusy, buf, wlog,
                 retnil, failed, spd, wk, sk, exited, launched>>

\* SetMaxParallel(n), n > 0, while building
SetLimit(n) ==
  /\ phase = "build" /\ n > 0
  /\ limit' = n
  /\ UNCHANGED <<verts, deps, retries, gerrs, dot, tmKnown, tmErrs, serial, buffered, phase, rvars>>

-----------------------------------------------------------------------------
(* Scheduler.  Only the scheduler writes status and errs.                  *)

\* `case iderr := <-done`: receive one message of v
SchedRecv(v, kind) ==
  /\ phase = "run"
  /\ msgs[v] # <<>> /\ \E k \in 1..Len(msgs[v]) : msgs[v][k] = kind
  /\ LET k == CHOOSE j \in 1..Len(msgs[v]) : msgs[v][j] = kind IN
       msgs' = [msgs EXCEPT ![v] = SubSeq(@, 1, k - 1) \o SubSeq(@, k + 1, Len(@))]
  /\ \* a run worker continues to its deferred calls; skip / errskip goroutines just end
     \* (the channel hand-off happens before either side logs: the worker may already be in its deferred calls)
     w' = IF kind \in {"nil", "err", "skipparents"} /\ w[v] = "sending" THEN [w EXCEPT ![v] = "recvd"] ELSE w
  /\ LET st1 == [status EXCEPT ![v] = "done"] IN
     CASE kind = "nil" -> status' = st1 /\ errs' = errs
       [] kind = "err" -> status' = st1 /\ errs' = errs \cup {<<"task", v>>}
       [] kind = "skipped" -> status' = st1 /\ errs' = errs \cup {<<"skipped", v>>}
       [] kind = "skipparents" ->
            \* every transitive dependent is marked skip, whatever its status was
            /\ status' = [u \in Tasks |-> IF u \in TransDependents(verts, deps, v) THEN "skip" ELSE st1[u]]
            /\ errs' = errs
  /\ sk' = sk \cup wk[v]
  /\ UNCHANGED <<gvars, phase, handled, cancelled, att, last, sem, lockBusy, result, buf, wlog,
                 retnil, failed, spd, wk, exited, launched>>

\* getNextVertex: any vertex that is pending or skip and has no pending / in-progress dependency;
\* in serial mode nothing while anything is in progress
InProgress == {v \in verts : status[v] = "inprogress"}
Eligible ==
  IF serial /\ InProgress # {} THEN {}
  ELSE {v \in verts : status[v] \in {"pending", "skip"}
                      /\ \A c \in deps[v] : status[c] \notin {"pending", "inprogress"}}
AllDone == \A v \in verts : status[v] = "done"

\* default branch, all done: leave the loop
SchedAllDone ==
  /\ phase = "run" /\ Eligible = {} /\ AllDone
  /\ phase' = "returned"
  /\ result' = IF errs = {} THEN "nil" ELSE "errors"
  /\ UNCHANGED <<gvars, status, errs, handled, cancelled, w, msgs, att, last, sem, lockBusy, buf, wlog,
                 retnil, failed, spd, wk, sk, exited, launched>>

\* default branch: the context is done and this was not handled yet
SchedCancelObserved ==
  /\ phase = "run" /\ cancelled /\ ~handled /\ ~(Eligible = {} /\ AllDone)
  /\ handled' = TRUE
  /\ errs' = errs \cup {<<"cancel", "">>}
  /\ UNCHANGED <<gvars, phase, status, cancelled, w, msgs, att, last, sem, lockBusy, result, buf, wlog,
                 retnil, failed, spd, wk, sk, exited, launched>>

\* default branch, nothing to launch: sleep one tick
SchedIdle ==
  /\ phase = "run" /\ Eligible = {} /\ ~AllDone
  /\ UNCHANGED vars

\* default branch: launch vertex v as skip / error-skip / run
SchedLaunch(v, kind) ==
  /\ phase = "run" /\ v \in Eligible
  /\ kind = IF status[v] = "skip" THEN "skip" ELSE IF errs # {} THEN "errskip" ELSE "run"
  /\ status' = [status EXCEPT ![v] = "inprogress"]
  /\ CASE kind = "skip"    -> msgs' = [msgs EXCEPT ![v] = Append(@, "nil")] /\ w' = w
       [] kind = "errskip" -> msgs' = [msgs EXCEPT ![v] = Append(@, "skipped")] /\ w' = w
       [] kind = "run"     -> msgs' = msgs /\ w' = [w EXCEPT ![v] = "spawned"]
  /\ wk' = IF kind = "run" THEN [wk EXCEPT ![v] = sk] ELSE wk
  /\ launched' = IF kind = "run" /\ handled THEN launched + 1 ELSE launched
  /\ UNCHANGED <<gvars, phase, errs, handled, cancelled, att, last, sem, lockBusy, result, buf, wlog,
                 retnil, failed, spd, sk, exited>>

-----------------------------------------------------------------------------
(* Workers *)
\* the worker goroutine is about to wait for a semaphore slot / for the Task mutex (hooks `acquiring`, `locking`)
Acquiring(v) ==
  /\ phase = "run" /\ w[v] = "spawned"
  /\ w' = [w EXCEPT ![v] = "waitsem"]
  /\ UNCHANGED <<gvars, phase, status, errs, handled, cancelled, msgs, att, last, sem, lockBusy, result, buf, wlog,
                 retnil, failed, spd, wk, sk, exited, launched>>
Locking(v) ==
  /\ phase = "run" /\ w[v] = "gotsem"
  /\ w' = [w EXCEPT ![v] = "waitlock"]
  /\ UNCHANGED <<gvars, phase, status, errs, handled, cancelled, msgs, att, last, sem, lockBusy, result, buf, wlog,
                 retnil, failed, spd, wk, sk, exited, launched>>

Acquire(v) ==
  /\ phase = "run" /\ w[v] = "waitsem" /\ sem < limit
  /\ sem' = sem + 1 /\ w' = [w EXCEPT ![v] = "gotsem"]
  /\ UNCHANGED <<gvars, phase, status, errs, handled, cancelled, msgs, att, last, lockBusy, result, buf, wlog,
                 retnil, failed, spd, wk, sk, exited, launched>>

Lock(v) ==
  /\ phase = "run" /\ w[v] = "waitlock" /\ ~lockBusy[v]
  /\ w' = [w EXCEPT ![v] = "locked"]
  /\ UNCHANGED <<gvars, phase, status, errs, handled, cancelled, msgs, att, last, sem, lockBusy, result, buf, wlog,
                 retnil, failed, spd, wk, sk, exited, launched>>

\* the task function is entered: first attempt, or a retry after a non-nil attempt
Enter(v) ==
  /\ phase \in {"run", "returned"}
  /\ \/ w[v] = "locked"
     \/ w[v] \in {"exited", "flushed"} /\ (buffered => w[v] = "flushed") /\ last[v] # "nil" /\ att[v] <= retries[v]
  /\ att' = [att EXCEPT ![v] = @ + 1]
  /\ w' = [w EXCEPT ![v] = "run"]
  /\ UNCHANGED <<gvars, phase, status, errs, handled, cancelled, msgs, last, sem, lockBusy, result, buf, wlog,
                 retnil, failed, spd, wk, sk, exited, launched>>

\* the task writes an output fragment (buffered mode)
Frag(v, x) ==
  /\ w[v] = "run" /\ buffered
  /\ buf' = [buf EXCEPT ![v] = Append(@, x)]
  /\ UNCHANGED <<gvars, phase, status, errs, handled, cancelled, w, msgs, att, last, sem, lockBusy, result, wlog,
                 retnil, failed, spd, wk, sk, exited, launched>>

\* the task function returns
Exit(v, o) ==
  /\ w[v] = "run" /\ o \in {"nil", "err", "skipparents"}
  /\ last' = [last EXCEPT ![v] = o]
  /\ w' = [w EXCEPT ![v] = "exited"]
  /\ retnil' = IF o = "nil" THEN retnil \cup {v} ELSE retnil
  /\ wk' = [wk EXCEPT ![v] = @ \cup {v}]
  /\ exited' = Append(exited, v)
  /\ UNCHANGED <<gvars, phase, status, errs, handled, cancelled, msgs, att, sem, lockBusy, result, buf, wlog,
                 failed, spd, sk, launched>>

\* the attempt's buffered output is written to the writer as one block, under the buffer mutex
Flush(v) ==
  /\ w[v] = "exited" /\ buffered
  /\ wlog' = IF buf[v] = <<>> THEN wlog ELSE Append(wlog, buf[v])
  /\ buf' = [buf EXCEPT ![v] = <<>>]
  /\ w' = [w EXCEPT ![v] = "flushed"]
  /\ UNCHANGED <<gvars, phase, status, errs, handled, cancelled, msgs, att, last, sem, lockBusy, result,
                 retnil, failed, spd, wk, sk, exited, launched>>

\* the same when the writer reports an error (a closed file ...): Run ignores the error; what was not written stays
\* in the worker's buffer and goes out again with the output of the next attempt
FlushFail(v) ==
  /\ w[v] = "exited" /\ buffered
  /\ w' = [w EXCEPT ![v] = "flushed"]
  /\ UNCHANGED <<gvars, phase, status, errs, handled, cancelled, msgs, att, last, sem, lockBusy, result, buf, wlog,
                 retnil, failed, spd, wk, sk, exited, launched>>

\* the retry loop is over: block on `done <- IDErr{v, err}`
Sending(v) ==
  /\ w[v] \in {"exited", "flushed"} /\ (buffered => w[v] = "flushed")
  /\ last[v] = "nil" \/ att[v] > retries[v]
  /\ w' = [w EXCEPT ![v] = "sending"]
  /\ msgs' = [msgs EXCEPT ![v] = Append(@, last[v])]
  /\ failed' = IF last[v] = "err" THEN failed \cup {v} ELSE failed
  /\ spd' = IF last[v] = "skipparents" THEN spd \cup {v} ELSE spd
  /\ UNCHANGED <<gvars, phase, status, errs, handled, cancelled, att, last, sem, lockBusy, result, buf, wlog,
                 retnil, wk, sk, exited, launched>>

\* deferred: Task.Unlock, then the semaphore slot
Unlocking(v) ==
  /\ w[v] \in {"recvd", "sending"}   \* "sending": the message was handed over, the scheduler has not logged the receive yet
  /\ w' = [w EXCEPT ![v] = "unlocked"]
  /\ UNCHANGED <<gvars, phase, status, errs, handled, cancelled, msgs, att, last, sem, lockBusy, result, buf, wlog,
                 retnil, failed, spd, wk, sk, exited, launched>>

Releasing(v) ==
  /\ w[v] = "unlocked"
  /\ sem' = sem - 1 /\ w' = [w EXCEPT ![v] = "fin"]
  /\ UNCHANGED <<gvars, phase, status, errs, handled, cancelled, msgs, att, last, lockBusy, result, buf, wlog,
                 retnil, failed, spd, wk, sk, exited, launched>>

-----------------------------------------------------------------------------
(* Environment *)
Cancel ==
  /\ phase = "run" /\ ~cancelled
  /\ cancelled' = TRUE
  /\ UNCHANGED <<gvars, phase, status, errs, handled, w, msgs, att, last, sem, lockBusy, result, buf, wlog,
                 retnil, failed, spd, wk, sk, exited, launched>>

\* another graph sharing the Task locks / unlocks it
EnvLock(v) ==
  /\ ~lockBusy[v] /\ w[v] \notin {"locked", "run", "exited", "flushed", "sending", "recvd"}
  /\ lockBusy' = [lockBusy EXCEPT ![v] = TRUE]
  /\ UNCHANGED <<gvars, phase, status, errs, handled, cancelled, w, msgs, att, last, sem, result, buf, wlog,
                 retnil, failed, spd, wk, sk, exited, launched>>
EnvUnlock(v) ==
  /\ lockBusy[v]
  /\ lockBusy' = [lockBusy EXCEPT ![v] = FALSE]
  /\ UNCHANGED <<gvars, phase, status, errs, handled, cancelled, w, msgs, att, last, sem, result, buf, wlog,
                 retnil, failed, spd, wk, sk, exited, launched>>

-----------------------------------------------------------------------------
(* Properties (C13 - C16) *)

Running == {v \in Tasks : w[v] = "run"}
HoldsSlot == {v \in Tasks : w[v] \in {"gotsem", "waitlock", "locked", "run", "exited", "flushed", "sending", "recvd", "unlocked"}}

TypeOK ==
  /\ \A v \in Tasks : w[v] \in WorkerStates /\ status[v] \in {"pending", "inprogress", "skip", "done"}
  /\ sem = Cardinality(HoldsSlot)

(* C13 *)
StartAfterDepsOk == \A v \in Tasks : att[v] > 0 => deps[v] \subseteq retnil
AttemptsBounded  == \A v \in Tasks : att[v] <= retries[v] + 1
HBDepsBeforeEntry == \A v \in Running : TransDeps(deps, v) \subseteq wk[v]
NoRunAfterNil == \A v \in Tasks : (w[v] = "run" /\ att[v] > 1) => last[v] # "nil"

(* C14 *)
NoDependentOfFailed ==
  \A f \in failed : \A u \in TransDependents(verts, deps, f) : att[u] = 0
NoDependentOfSkipParents ==
  \A s \in spd : \A u \in TransDependents(verts, deps, s) : att[u] = 0
SkipDeps == UNION {TransDependents(verts, deps, s) : s \in spd}
ReportComplete ==
  (phase = "returned" /\ result \in {"nil", "errors"}) =>
     /\ \A f \in failed : <<"task", f>> \in errs
     /\ \A e \in errs : e[1] = "task" => e[2] \in failed
     /\ \A v \in verts : (att[v] = 0 /\ v \notin SkipDeps) => (errs # {} => <<"skipped", v>> \in errs)
     /\ \A e \in errs : e[1] = "skipped" => att[e[2]] = 0
     /\ (result = "nil") <=> (errs = {})
     /\ (result = "nil") => \A v \in verts : v \in retnil \/ v \in spd \/ v \in SkipDeps
     /\ handled => result = "errors"
SkipParentsSilent ==
  (phase = "returned" /\ failed = {} /\ ~handled /\ result # "gerrs" /\ result # "cycle") => result = "nil"
NoLaunchAfterCancelObserved == launched = 0

(* C15 *)
ExecBound == Cardinality(Running) <= limit
SerialOne == serial => Cardinality({v \in Tasks : w[v] \in {"spawned", "waitsem", "gotsem", "waitlock", "locked", "run", "exited", "flushed"}}) <= 1
SerialHB  == serial => \A v \in Running : \A k \in 1..Len(exited) : exited[k] \in wk[v]
TaskMutex == \A v \in Tasks : w[v] \in {"locked", "run", "exited", "flushed", "sending", "recvd"} => ~lockBusy[v]
BlocksWhole == \A k \in 1..Len(wlog) : wlog[k] # <<>> /\ \A a, b \in 1..Len(wlog[k]) : wlog[k][a][1] = wlog[k][b][1] /\ wlog[k][a][2] = wlog[k][b][2]

(* C16 *)
\* (a graph that already ran successfully may be extended and run again - Continue: what ran before stays done)
CycleRejected == (phase = "returned" /\ result = "cycle") =>
                    \A v \in Tasks : /\ w[v] = "none" /\ status[v] \in {"pending", "done"}
                                     /\ (status[v] = "pending" => att[v] = 0)
NoStartOnCycle == (HasCycle(verts, deps) \/ gerrs > 0) =>
                    /\ phase # "run"
                    /\ \A v \in Tasks : w[v] = "none" /\ (status[v] = "pending" => att[v] = 0) /\ status[v] \in {"pending", "done"}
\* no failure, no cancellation: a vertex whose dependencies all completed is launched / gets a slot as soon as one is free
Ready(v) == v \in verts /\ status[v] = "pending" /\ deps[v] \subseteq retnil /\ \A c \in deps[v] : status[c] = "done"
WorkConservingLaunch ==
  \A v \in Tasks : (phase = "run" /\ Ready(v) /\ (serial => InProgress = {})) => v \in Eligible
=============================================================================
