---------------------------- MODULE GetoptProps ----------------------------
(***************************************************************************)
(* The listed parser properties stated over the specification's state.     *)
(* Ghost roles (st.roles) record what each argv index was used for:        *)
(*   opt   token interpreted as option(s); ps = option index per pair      *)
(*         (0 = unknown)                                                   *)
(*   pass  option token containing an unknown option, Warn/Pass level      *)
(*   unk   option token containing an unknown option, Fail level           *)
(*   vmin / vmax  value taken as mandatory / additional value of option o  *)
(*   cmd   command name that selected a sub-command                        *)
(*   text  positional argument                                             *)
(*   term  the terminator `--`; tail: everything after term or stop        *)
(*   stop  the require-order stop token                                    *)
(* Each predicate takes a state; "Final*" ones are meant for final states. *)
(***************************************************************************)
EXTENDS Getopt

RemRoles == {"text", "pass", "tail", "stop"}

RECURSIVE SelectIdx(_, _, _)
SelectIdx(argv, roles, k) ==
  IF k > Len(argv) THEN <<>>
  ELSE IF roles[k].r \in RemRoles THEN <<argv[k]>> \o SelectIdx(argv, roles, k + 1)
  ELSE SelectIdx(argv, roles, k + 1)

Ok(st) == st.phase \in {"parsed", "done"} /\ st.err.kind = "" /\ ~st.miss

(* C03: remaining = exactly the tokens not consumed as option, value or    *)
(* command name, in order, each once, unchanged; `--` dropped.             *)
Conservation(cfg, argv, st) ==
  (Ok(st) /\ ~st.corner) => st.rest = SelectIdx(argv, st.roles, 1)

(* C03/C08: in Pass/Warn mode a token holding an unknown option is part of *)
(* remaining (its role is in RemRoles), in Fail mode the parse fails.      *)
UnknownNeverDropped(cfg, argv, st) ==
  /\ Ok(st) => \A k \in 1..Len(argv) : st.roles[k].r # "unk"
  /\ (st.phase \in {"parsed", "done"} /\ \E k \in 1..Len(argv) : st.roles[k].r = "unk"
        /\ st.err.kind \in {"", "unknown"})
       => st.err.kind = "unknown"

(* C19: a failed Parse returns a nil remaining list.                       *)
ErrImpliesNilRest(cfg, argv, st) ==
  st.phase \in {"parsed", "done"} => ((st.err.kind # "") <=> st.restnil)

(* C04: terminator.                                                        *)
TerminatorRoles(cfg, argv, st) ==
  /\ st.term # 0 =>
       /\ argv[st.term] = TermTok /\ st.roles[st.term].r = "term"
       /\ \A k \in (st.term + 1)..Len(argv) : st.roles[k].r = "tail"
  /\ \A k \in 1..Len(argv) :
       (argv[k] = TermTok /\ st.roles[k].r # "none")
          => st.roles[k].r \in {"vmin", "term", "tail"} \/ (st.corner /\ k >= st.stop)
  /\ (Ok(st) /\ st.term # 0) =>
        SubSeq(st.rest, Len(st.rest) - (Len(argv) - st.term) + 1, Len(st.rest)) = Drop(argv, st.term)

(* C09: require-order stop.                                                *)
StopRoles(cfg, argv, st) ==
  (st.stop # 0 /\ ~st.corner) =>
     /\ st.roles[st.stop].r = "stop"
     /\ \A k \in (st.stop + 1)..Len(argv) : st.roles[k].r = "tail"
     /\ Ok(st) => SubSeq(st.rest, Len(st.rest) - (Len(argv) - st.stop), Len(st.rest)) = Drop(argv, st.stop - 1)

(* C10: a command name selects a command only where a positional could     *)
(* stand, and the final node is reached by exactly the cmd-role tokens.    *)
RECURSIVE FollowCmds(_, _, _, _, _)
FollowCmds(cfg, argv, roles, k, n) ==
  IF k > Len(argv) THEN n
  ELSE IF roles[k].r = "cmd" THEN FollowCmds(cfg, argv, roles, k + 1, ChildNamed(cfg, n, argv[k]))
  ELSE FollowCmds(cfg, argv, roles, k + 1, n)

DeepestCommand(cfg, argv, st) ==
  st.phase \in {"parsed", "done", "post"} => FollowCmds(cfg, argv, st.roles, 1, 1) = st.node

(* C06: Called exactly when given (command line, environment, SetCalled).  *)
GivenOnCli(st, o) == \E k \in 1..Len(st.roles) : \E j \in 1..Len(st.roles[k].ps) : st.roles[k].ps[j] = o
CalledExact(cfg, orc, argv, st) ==
  \A o \in 1..NOpts(cfg) :
     st.called[o] <=> (GivenOnCli(st, o) \/ EnvEffect(cfg, orc, o).set \/ Opt(cfg, o).setcalled)

(* C06: options not mentioned keep their default (or environment value).   *)
UntouchedKeepDefault(cfg, orc, argv, st) ==
  \A o \in 1..NOpts(cfg) : ~GivenOnCli(st, o) => st.store[o] = BaseVal(cfg, orc, o)

(* C12: command line over environment over default.                        *)
EnvPrecedence(cfg, orc, argv, st) ==
  \A o \in 1..NOpts(cfg) :
     (~GivenOnCli(st, o) /\ EnvEffect(cfg, orc, o).set) => st.as[o] = Opt(cfg, o).env /\ st.called[o]

(* C10: exactly one user function at most, and only the addressed one.     *)
ExactlyOneFn(cfg, argv, st) ==
  /\ Len(st.ran) <= 1
  /\ st.ran # <<>> => /\ st.ran[1].node = st.node /\ st.ran[1].args = st.rest
                      /\ st.derr = "" /\ Node(cfg, st.node).fn /\ ~Node(cfg, st.node).ishelp

(* C11: missing required option or help => no user function.               *)
RequiredEnforced(cfg, argv, st) ==
  st.phase = "done" =>
     /\ (Missing(cfg, st, st.node) # {} => st.ran = <<>>)
     /\ (HelpCalled(cfg, st) => st.ran = <<>> /\ st.derr = "help" /\ st.helpof = st.node)
     /\ (st.derr = "required" => ~HelpCalled(cfg, st))

-----------------------------------------------------------------------------
(* Declarative recomputation of option values from the ghost roles (C01,   *)
(* C02): which tokens an occurrence consumed is read off the roles, what   *)
(* the value must then be is computed here independently of the step       *)
(* operators' bookkeeping.                                                 *)

ShortTok(tok) == Len(tok) >= 2 /\ tok[1] = DASH /\ tok[2] # DASH

\* indices directly following k whose role is a value owned by o
RECURSIVE TakenAfter(_, _, _)
TakenAfter(roles, k, o) ==
  IF k + 1 <= Len(roles) /\ roles[k + 1].r \in {"vmin", "vmax"} /\ roles[k + 1].o = o
  THEN <<k + 1>> \o TakenAfter(roles, k + 1, o)
  ELSE <<>>

\* occurrences of option o as single-pair option tokens, in argv order
SingleOcc(st, o) ==
  SelectSeq([k \in 1..Len(st.roles) |-> k],
            LAMBDA k : st.roles[k].r \in {"opt", "pass", "unk", "stop"} /\ st.roles[k].ps = <<o>>)
OnlySingleOcc(st, o) ==
  \A k \in 1..Len(st.roles) : \A j \in 1..Len(st.roles[k].ps) :
     st.roles[k].ps[j] = o => Len(st.roles[k].ps) = 1

\* texts consumed by the occurrence at index k: attached value, then taken tokens
OccTexts(cfg, argv, st, k, o) ==
  LET p == Split(argv[k], cfg.mode).pairs[1]
      tk == TakenAfter(st.roles, k, o)
  IN (IF p.has THEN <<p.arg>> ELSE <<>>) \o [j \in 1..Len(tk) |-> argv[tk[j]]]

ConvElem(cfg, orc, kind, t) ==   \* converted element(s) of one consumed text
  CASE kind = "sslice" -> <<t>>
    [] kind = "islice" ->
         LET dd == FirstDotDot(t, 1) IN
         IF dd = 0 THEN <<Orc(orc, t).ic>>
         ELSE IntRange(Orc(orc, Take(t, dd - 1)).iv, Orc(orc, Drop(t, dd + 1)).iv)
    [] kind = "fslice" -> <<Orc(orc, t).fb>>
    [] OTHER -> <<t>>

RECURSIVE ConcatMap(_, _, _, _)
ConcatMap(cfg, orc, kind, ts) ==
  IF ts = <<>> THEN <<>> ELSE ConvElem(cfg, orc, kind, Head(ts)) \o ConcatMap(cfg, orc, kind, Tail(ts))

(* C02: consumed values are stored in command-line order across occurrences *)
StoredInOrder(cfg, orc, argv, st) ==
  Ok(st) => \A o \in 1..NOpts(cfg) :
     (Opt(cfg, o).kind \in {"sslice", "islice", "fslice"} /\ OnlySingleOcc(st, o)) =>
        LET occ == SingleOcc(st, o)
            all == Concat([j \in 1..Len(occ) |-> OccTexts(cfg, argv, st, occ[j], o)])
        IN st.store[o] = BaseVal(cfg, orc, o) \o ConcatMap(cfg, orc, Opt(cfg, o).kind, all)

(* C02: map entries: key = text before the first "=", value = everything   *)
(* after it, a repeated key keeps the last value.                          *)
MapAsFn(m) == [k \in {m[j][1] : j \in 1..Len(m)} |->
                 (m[CHOOSE j \in 1..Len(m) : m[j][1] = k /\ \A j2 \in (j + 1)..Len(m) : m[j2][1] # k])[2]]
MapStored(cfg, orc, argv, st) ==
  Ok(st) => \A o \in 1..NOpts(cfg) :
     (Opt(cfg, o).kind = "smap" /\ OnlySingleOcc(st, o)) =>
        LET occ == SingleOcc(st, o)
            all == Concat([j \in 1..Len(occ) |-> OccTexts(cfg, argv, st, occ[j], o)])
            kv  == [j \in 1..Len(all) |->
                     LET e == FirstIdx(all[j], EQ, 1)
                         key == Take(all[j], e - 1)
                     IN <<IF cfg.lower THEN LowerTok(key) ELSE key, Drop(all[j], e)>>]
        IN /\ \A j \in 1..Len(all) : FirstIdx(all[j], EQ, 1) # 0
           /\ MapAsFn(st.store[o]) = MapAsFn(BaseVal(cfg, orc, o) \o kv)
           /\ \A a, b \in 1..Len(st.store[o]) : a # b => st.store[o][a][1] # st.store[o][b][1]

(* C02: per occurrence min <= consumed <= max, and beyond min intake stops *)
(* exactly at end of input, an option-looking token, `--` or an ill-typed  *)
(* token.                                                                  *)
IsFlagKind(cfg, o) == Opt(cfg, o).kind \in {"bool", "incr"}
IntakeCount(cfg, orc, argv, st) ==
  Ok(st) => \A o \in 1..NOpts(cfg) : (OnlySingleOcc(st, o) /\ ~IsFlagKind(cfg, o)) =>
     \A j \in 1..Len(SingleOcc(st, o)) :
        LET k  == SingleOcc(st, o)[j]
            n  == Len(OccTexts(cfg, argv, st, k, o))
            tk == TakenAfter(st.roles, k, o)
            nx == k + Len(tk) + 1
        IN /\ n >= MinOf(cfg, o) /\ n <= MaxOf(cfg, o)
           /\ (n < MaxOf(cfg, o) /\ MaxOf(cfg, o) > 0) =>
                \/ nx > Len(argv)
                \/ IsOptTok(argv[nx], cfg.mode)
                \/ argv[nx] = TermTok
                \/ MaxAccepts(cfg, orc, o, argv[nx]) = "stop"

(* C01: a scalar option holds the conversion of the text of its last       *)
(* occurrence; flags count / negate; optional kinds without value keep     *)
(* their previous value.                                                   *)
ScalarConv(cfg, orc, o, t) ==
  LET k == Opt(cfg, o).kind IN
  CASE k \in {"string", "sopt"} -> t
    [] k \in {"int", "iopt"} -> Orc(orc, t).ic
    [] k \in {"float", "fopt"} -> Orc(orc, t).fb
    [] OTHER -> t
ScalarExact(cfg, orc, argv, st) ==
  Ok(st) => \A o \in 1..NOpts(cfg) :
     (Opt(cfg, o).kind \in {"string", "sopt", "int", "iopt", "float", "fopt"} /\ OnlySingleOcc(st, o)) =>
        LET occ == SingleOcc(st, o)
            tx  == [j \in 1..Len(occ) |-> OccTexts(cfg, argv, st, occ[j], o)]
            withText == {j \in 1..Len(occ) : tx[j] # <<>>}
        IN IF withText = {} THEN st.store[o] = BaseVal(cfg, orc, o)
           ELSE LET j == CHOOSE x \in withText : \A y \in withText : y <= x IN
                /\ Len(tx[j]) = 1
                /\ st.store[o] = ScalarConv(cfg, orc, o, tx[j][1])
                /\ (Opt(cfg, o).kind \in {"int", "iopt"} => Orc(orc, tx[j][1]).i)
                /\ (Opt(cfg, o).kind \in {"float", "fopt"} => Orc(orc, tx[j][1]).f)
FlagSemantics(cfg, orc, argv, st) ==
  Ok(st) => \A o \in 1..NOpts(cfg) :
     LET bare == \A k \in 1..Len(argv) : \A j \in 1..Len(st.roles[k].ps) :
                    st.roles[k].ps[j] = o => ~Split(argv[k], cfg.mode).pairs[j].has
         nocc == Cardinality(UNION {{<<k, j>> : j \in {jj \in 1..Len(st.roles[k].ps) : st.roles[k].ps[jj] = o}} :
                                      k \in 1..Len(argv)})
     IN /\ (Opt(cfg, o).kind = "bool" /\ bare /\ nocc > 0) => st.store[o] = ~Opt(cfg, o).defb
        /\ (Opt(cfg, o).kind = "incr") => st.store[o] = BaseVal(cfg, orc, o) + nocc

-----------------------------------------------------------------------------
(* Relational properties: the outcome of a run compared with the outcome   *)
(* of a run on a rewritten command line / configuration.                   *)

ObsCore(st) == [errk |-> st.err.kind, rest |-> st.rest, restnil |-> st.restnil, store |-> st.store,
                called |-> st.called, warn |-> st.warn, node |-> st.node,
                derr |-> st.derr, ran |-> st.ran, helpof |-> st.helpof]
ObsFull(st) == [core |-> ObsCore(st), as |-> st.as, err |-> st.err]

\* rebuild a single-pair option token with another name
Dashes(tok) == IF Len(tok) >= 2 /\ tok[2] = DASH THEN <<DASH, DASH>> ELSE <<DASH>>
Renamed(tok, name) ==
  LET body == Drop(tok, Len(Dashes(tok)))
      b    == SplitBody(body)
  IN Dashes(tok) \o name \o b.rest

SinglePairRenamable(cfg, tok) ==
  /\ tok # <<DASH>> /\ ~(Len(tok) >= 3 /\ tok[1] = DASH /\ tok[2] = DASH /\ tok[3] = EQ)
  /\ (ShortTok(tok) => cfg.mode = 0)

(* C05: a unique prefix behaves exactly like the full name (CalledAs too)  *)
UniquePrefixEqFull(cfg, orc, argv, disp, fin) ==
  LET argv2 == [k \in 1..Len(argv) |->
                  IF fin.roles[k].r \in {"opt", "pass", "unk", "stop"} /\ Len(fin.roles[k].ps) = 1
                     /\ fin.roles[k].ps[1] # 0 /\ SinglePairRenamable(cfg, argv[k])
                  THEN Renamed(argv[k], fin.roles[k].ks[1]) ELSE argv[k]]
      fin2 == Run(cfg, orc, argv2, disp)
  IN argv2 # argv =>
       /\ ObsCore(fin2) = [ObsCore(fin) EXCEPT !.rest = ObsCore(fin2).rest]
       /\ fin2.as = fin.as
       /\ Len(fin2.rest) = Len(fin.rest)
       /\ fin2.err.kind = fin.err.kind /\ fin2.err.name = fin.err.name /\ fin2.err.cands = fin.err.cands

(* C05: ambiguity is an error listing all candidates and changes nothing   *)
AmbiguousRejectedAll(cfg, argv, st) ==
  st.err.kind = "ambiguous" =>
     /\ Cardinality(st.err.cands) >= 2
     /\ LET p == st.pairs[st.pi] IN
          /\ p.name \notin Keys(cfg, st.node)
          /\ st.err.cands = {k \in Keys(cfg, st.node) : IsPfx(p.name, k)}
RECURSIVE NodeAt(_, _, _, _, _, _)
NodeAt(cfg, argv, roles, k, upto, n) ==   \* command level in force when index `upto` is interpreted
  IF k >= upto THEN n
  ELSE IF roles[k].r = "cmd" THEN NodeAt(cfg, argv, roles, k + 1, upto, ChildNamed(cfg, n, argv[k]))
  ELSE NodeAt(cfg, argv, roles, k + 1, upto, n)
ExactWins(cfg, argv, st) ==
  \A k \in 1..Len(argv) : \A j \in 1..Len(st.roles[k].ps) :
     LET nm == Split(argv[k], cfg.mode).pairs[j].name
         n  == NodeAt(cfg, argv, st.roles, 1, k, 1)
     IN nm \in Keys(cfg, n) => /\ st.roles[k].ps[j] = OptOfKey(cfg, n, nm)
                               /\ st.roles[k].ks[j] = nm

(* C06: any alias has exactly the effect of the primary name               *)
AliasEqPrimary(cfg, orc, argv, disp, fin) ==
  LET argv2 == [k \in 1..Len(argv) |->
                  IF fin.roles[k].r \in {"opt", "pass", "unk", "stop"} /\ Len(fin.roles[k].ps) = 1
                     /\ fin.roles[k].ps[1] # 0 /\ SinglePairRenamable(cfg, argv[k])
                     /\ Len(Opt(cfg, fin.roles[k].ps[1]).name) > 1
                  THEN Renamed(argv[k], Opt(cfg, fin.roles[k].ps[1]).name) ELSE argv[k]]
      fin2 == Run(cfg, orc, argv2, disp)
  IN argv2 # argv =>
       /\ ObsCore(fin2) = [ObsCore(fin) EXCEPT !.rest = ObsCore(fin2).rest]
       /\ Len(fin2.rest) = Len(fin.rest)

(* C07: tokens starting with `--` (and everything that is not a short      *)
(* option token) are interpreted identically in the three modes.           *)
LongModeIndependent(cfg, orc, argv, disp, fin) ==
  (\A k \in 1..Len(argv) : ~ShortTok(argv[k])) =>
     \A m \in {0, 1, 2} : ObsFull(Run([cfg EXCEPT !.mode = m], orc, argv, disp)) = ObsFull(fin)

(* C07: the documented rewriting of single-dash tokens.                    *)
IsFlag(cfg, o) == o # 0 /\ Opt(cfg, o).kind \in {"bool", "incr"}
RewriteTok(cfg, tok, role) ==   \* sequence of tokens the token is documented to stand for
  IF ~ShortTok(tok) \/ tok[2] = EQ THEN <<tok>>
  ELSE LET b == SplitBody(Drop(tok, 1)) IN
  CASE cfg.mode = 0 -> <<<<DASH>> \o tok>>
    [] cfg.mode = 2 ->
         IF Len(b.name) > 1 \/ Len(b.rest) > 0
         THEN <<<<DASH, DASH, b.name[1], EQ>> \o Drop(b.name, 1) \o b.rest>>
         ELSE <<<<DASH, DASH, b.name[1]>>>>
    [] OTHER ->   \* bundling: only where all letters but the last are declared flags and the last is declared
         IF Len(role.ps) = Len(b.name) /\ role.r \in {"opt"}
            /\ \A j \in 1..(Len(b.name) - 1) : IsFlag(cfg, role.ps[j])
            /\ role.ps[Len(b.name)] # 0
         THEN [j \in 1..Len(b.name) |->
                 IF j = Len(b.name) THEN <<DASH, b.name[j]>> \o b.rest ELSE <<DASH, b.name[j]>>]
         ELSE <<tok>>

RewriteEquiv(cfg, orc, argv, disp, fin) ==
  LET parts == [k \in 1..Len(argv) |-> RewriteTok(cfg, argv[k], fin.roles[k])]
      argv2 == Concat(parts)
      fin2  == Run(cfg, orc, argv2, disp)
      sameLen == Len(argv2) = Len(argv)
  IN (argv2 # argv /\ ~fin.corner) =>
       /\ fin2.err.kind = fin.err.kind
       /\ fin2.store = fin.store /\ fin2.called = fin.called /\ fin2.node = fin.node
       /\ (cfg.mode # 1 => fin2.as = fin.as)
       /\ fin2.warn = fin.warn
       \* remaining: identical where no rewritten token is passed through
       /\ (\A k \in 1..Len(argv) : (parts[k] # <<argv[k]>>) => fin.roles[k].r \in {"opt"}) => fin2.rest = fin.rest

(* C09: before the stop point parsing is as without require-order.         *)
NoRo(cfg) == [cfg EXCEPT !.nodes = [n \in 1..Len(cfg.nodes) |-> [cfg.nodes[n] EXCEPT !.ro = FALSE]]]
PrefixAsUnordered(cfg, orc, argv, disp, fin) ==
  (fin.stop # 0 /\ ~fin.corner /\ ~fin.partial /\ fin.err.kind = "") =>
     LET pre == Run(NoRo(cfg), orc, Take(argv, fin.stop - 1), FALSE) IN
     /\ pre.err.kind = ""
     /\ pre.store = fin.store /\ pre.called = fin.called /\ pre.as = fin.as /\ pre.node = fin.node
     /\ fin.rest = pre.rest \o Drop(argv, fin.stop - 1)
NoStopAsUnordered(cfg, orc, argv, disp, fin) ==
  (fin.stop = 0 /\ \E n \in 1..Len(cfg.nodes) : cfg.nodes[n].ro) =>
     ObsFull(Run(NoRo(cfg), orc, argv, disp)) = ObsFull(fin)

RelationalPreds(cfg, orc, argv, disp, fin) ==
  [ UniquePrefixEqFull |-> UniquePrefixEqFull(cfg, orc, argv, disp, fin),
    AliasEqPrimary |-> AliasEqPrimary(cfg, orc, argv, disp, fin),
    LongModeIndependent |-> LongModeIndependent(cfg, orc, argv, disp, fin),
    RewriteEquiv |-> RewriteEquiv(cfg, orc, argv, disp, fin),
    PrefixAsUnordered |-> PrefixAsUnordered(cfg, orc, argv, disp, fin),
    NoStopAsUnordered |-> NoStopAsUnordered(cfg, orc, argv, disp, fin) ]

RelViolations(cfg, orc, argv, disp, fin) ==
  IF fin.miss THEN {}
  ELSE LET p == RelationalPreds(cfg, orc, argv, disp, fin) IN {k \in DOMAIN p : ~p[k]}

(* C20: the reported missing option is determined by a fixed rule, and the *)
(* ordering oracle supplied with the definition is a permutation of the    *)
(* level's names.                                                          *)
FixedRule(cfg, argv, st) ==
  /\ \A n \in 1..NNodes(cfg) : SortedOK(cfg, n)
  /\ st.err.kind = "required" => Cardinality(st.err.names) = 1 /\ st.err.names \subseteq Missing(cfg, st, 1)
  /\ st.derr = "required" => Cardinality(st.dnames) = 1 /\ st.dnames \subseteq Missing(cfg, st, st.node)

FinalPreds(cfg, orc, argv, st) ==
  [ FixedRule |-> FixedRule(cfg, argv, st),
    Conservation |-> Conservation(cfg, argv, st),
    UnknownNeverDropped |-> UnknownNeverDropped(cfg, argv, st),
    ErrImpliesNilRest |-> ErrImpliesNilRest(cfg, argv, st),
    TerminatorRoles |-> TerminatorRoles(cfg, argv, st),
    StopRoles |-> StopRoles(cfg, argv, st),
    DeepestCommand |-> DeepestCommand(cfg, argv, st),
    CalledExact |-> CalledExact(cfg, orc, argv, st),
    UntouchedKeepDefault |-> UntouchedKeepDefault(cfg, orc, argv, st),
    EnvPrecedence |-> EnvPrecedence(cfg, orc, argv, st),
    ExactlyOneFn |-> ExactlyOneFn(cfg, argv, st),
    RequiredEnforced |-> RequiredEnforced(cfg, argv, st),
    StoredInOrder |-> StoredInOrder(cfg, orc, argv, st),
    MapStored |-> MapStored(cfg, orc, argv, st),
    IntakeCount |-> IntakeCount(cfg, orc, argv, st),
    ScalarExact |-> ScalarExact(cfg, orc, argv, st),
    FlagSemantics |-> FlagSemantics(cfg, orc, argv, st),
    AmbiguousRejectedAll |-> AmbiguousRejectedAll(cfg, argv, st),
    ExactWins |-> ExactWins(cfg, argv, st) ]

SpecViolations(cfg, orc, argv, st) ==
  IF st.miss THEN {}
  ELSE LET p == FinalPreds(cfg, orc, argv, st) IN {k \in DOMAIN p : ~p[k]}

=============================================================================
