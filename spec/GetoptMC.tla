------------------------------ MODULE GetoptMC ------------------------------
(***************************************************************************)
(* Exhaustive exploration of the parser specification: every argv of       *)
(* length <= L over the token alphabet of a configuration family, for      *)
(* every definition of the family, stepped through the parse one action at *)
(* a time with the property predicates evaluated on the way.               *)
(***************************************************************************)
EXTENDS Getopt, GetoptProps, Json, SequencesExt

CONSTANTS FamFile,   \* ndjson file: one family definition per line
          MaxLen,    \* argv length bound (0: use the bound recorded in the family)
          Relational,\* evaluate the relational (two-run) properties at initial states
          Emit       \* print one expected-outcome line per final state (direction A)

VARIABLES f, argv, st
vars == <<f, argv, st>>

Fams == ndJsonDeserialize(FamFile)
Bound(k) == IF MaxLen > 0 THEN MaxLen ELSE Fams[k].L

Cfg  == Fams[f].cfg
Orc_ == Fams[f].orc
Disp == Fams[f].disp

(* The argv is built token by token so that TLC's workers share the work   *)
(* (initial states are computed by a single thread).                       *)
Building == [phase |-> "build", act |-> "Build"]

Init == \E k \in 1..Len(Fams) : f = k /\ argv = <<>> /\ st = Building

Extend ==
  /\ st.phase = "build" /\ Len(argv) < Bound(f)
  /\ \E t \in Rng(Fams[f].tokens) : argv' = Append(argv, t)
  /\ UNCHANGED <<f, st>>

Start ==
  /\ st.phase = "build"
  /\ st' = InitState(Cfg, Orc_, argv)
  /\ UNCHANGED <<f, argv>>

ParseStep ==
  /\ st.phase # "build" /\ ~Final(st, Disp) /\ st.phase # "stuck"
  /\ st' = Step(Cfg, Orc_, argv, Disp, st)
  /\ UNCHANGED <<f, argv>>

Next == Extend \/ Start \/ ParseStep

Spec == Init /\ [][Next]_vars

-----------------------------------------------------------------------------
(* C19: totality - the case analysis of the loop has no hole.              *)
NotStuck == st.phase # "stuck"
Parsing == st.phase # "build"

(* predicates that must hold in every state *)
AlwaysPreds ==
  Parsing =>
  /\ TerminatorRoles(Cfg, argv, st)
  /\ DeepestCommand(Cfg, argv, st)
  /\ CalledExact(Cfg, Orc_, argv, st)
  /\ UntouchedKeepDefault(Cfg, Orc_, argv, st)
  /\ ExactWins(Cfg, argv, st)

FinalOK ==
  (Parsing /\ Final(st, Disp)) =>
     /\ LET bad == SpecViolations(Cfg, Orc_, argv, st) IN
          bad = {} \/ (PrintT(ToJson([k |-> "SPECFAIL", f |-> f, argv |-> argv, bad |-> bad])) /\ FALSE)
     /\ (Emit => PrintT(ToJson([k |-> "CASE", def |-> f, argv |-> argv, disp |-> Disp, exp |-> Outcome(Cfg, st)])))

RelOK ==
  (Relational /\ Parsing /\ st.act = "Init") =>
     LET bad == RelViolations(Cfg, Orc_, argv, Disp, Run(Cfg, Orc_, argv, Disp)) IN
       bad = {} \/ (PrintT(ToJson([k |-> "SPECFAIL", f |-> f, argv |-> argv, bad |-> bad])) /\ FALSE)

(* C19: every step decreases a lexicographic variant, so no parse is infinite *)
VariantDecreases ==
  [][st.phase # "build" => LexLess(Variant(Cfg, argv, st'), Variant(Cfg, argv, st))]_vars

(* C04 / C09: once the terminator or the require-order stop point has been  *)
(* reached, no option, command or unknown-option bookkeeping changes.      *)
Frozen ==
  [][(st.phase # "build" /\ (st.term # 0 \/ st.stop # 0)) =>
        /\ st'.store = st.store /\ st'.called = st.called /\ st'.as = st.as
        /\ st'.node = st.node /\ st'.unk = st.unk]_vars

(* C06: a step changes the value of at most the option being processed.    *)
FrameOneOption ==
  [][st.phase # "build" => \A o \in 1..NOpts(Cfg) :
        (st'.store[o] # st.store[o] \/ st'.called[o] # st.called[o] \/ st'.as[o] # st.as[o])
           => st'.cur = o]_vars
=============================================================================
