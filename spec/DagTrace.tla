------------------------------ MODULE DagTrace ------------------------------
(***************************************************************************)
(* Trace validation for dag.Graph.Run.  Every line of the ndjson trace is  *)
(* one event recorded at a linearization point of the real code (hooks     *)
(* built with -tags verif, the harness's task functions, its output writer *)
(* and its controller); each event must be the corresponding action of     *)
(* Dag.tla with the logged arguments, and every invariant of Dag.tla is    *)
(* evaluated in every state on the way.  A "config" line starts a new run. *)
(***************************************************************************)
EXTENDS Dag, Json

CONSTANT TraceFile

VARIABLE l,
         late   \* scheduler iterations of the default branch (launch / idle ticks) logged since the context ended
                \* without the end being observed
tvars == <<vars, l, late>>

Trace == ndJsonDeserialize(TraceFile)
Ev == Trace[l]
IsEv(e) == l <= Len(Trace) /\ Trace[l].ev = e /\ l' = l + 1

ToSet(s) == {s[k] : k \in 1..Len(s)}

\* ---- a new run: reset everything
TConfig ==
  /\ IsEv("config")
  /\ ResetAll
  /\ limit' = Ev.limit /\ serial' = Ev.serial /\ buffered' = Ev.buf
  /\ phase' = "build"

TAdd     == IsEv("add") /\ AddTask(Ev.id)
TDep     == IsEv("dep") /\ (IF Ev.order = <<>> THEN DependsOn(Ev.id, Ev.d) ELSE DependsOnSeq(Ev.id, Ev.order))
TRetries == IsEv("retries") /\ SetRetries(Ev.id, Ev.n)
TDefErr  == IsEv("deferr") /\ DefError
TTmAdd   == IsEv("tmadd") /\ TmAdd(Ev.id)
TTmGet   == IsEv("tmgetbad") /\ TmGetUnknown
\* Graph.String(): the dot diagram lists the vertices and edges in declaration order
TDot     == IsEv("dot") /\ Ev.tags = dot /\ DotComplete /\ UNCHANGED vars
TValidate == IsEv("validate") /\ Ev.k = ValidateResult /\ UNCHANGED vars
\* Run called again on a graph that already ran: nothing is launched, the same result comes back
TRerun   == IsEv("rerun") /\ phase = "returned" /\ Ev.k = result
              /\ (result = "errors" => ToSet(Ev.tags) = errs) /\ UNCHANGED vars
\* the program continues with the graph that ran successfully
TContinue == IsEv("continue") /\ Continue
TSetLimit == IsEv("setlimit") /\ SetLimit(Ev.n)
TAllDoneAgain == IsEv("alldone") /\ phase = "returned" /\ result \in {"nil", "errors"} /\ UNCHANGED vars

\* DepthFirstSort: an error exactly for cyclic graphs, otherwise every vertex once, dependencies first
TSort ==
  /\ IsEv("sort")
  /\ (Ev.k = "cycle") <=> HasCycle(verts, deps)
  /\ Ev.k \in {"ok", "cycle"}
  /\ Ev.k = "ok" =>
       /\ Len(Ev.order) = Cardinality(verts) /\ ToSet(Ev.order) = verts
       /\ \A i, j \in 1..Len(Ev.order) : Ev.order[j] \in deps[Ev.order[i]] => j < i
  /\ UNCHANGED vars

TRun == IsEv("run") /\ StartRun

\* why a logged launch is not allowed by the specification (printed for attribution to a property)
LaunchDiagnosis(v, k) ==
  IF phase # "run" THEN "not-running"
  ELSE IF v \notin verts THEN "unknown-vertex"
  ELSE IF status[v] \notin {"pending", "skip"} THEN "launched-twice"
  ELSE IF serial /\ InProgress # {} THEN "serial-overlap"
  ELSE IF \E c \in deps[v] : status[c] \in {"pending", "inprogress"} THEN "dependency-not-finished"
  ELSE IF k = "run" /\ \E c \in TransDeps(deps, v) : c \in failed THEN "run-after-failed-dependency"
  ELSE IF k = "errskip" /\ errs = {} THEN "skipped-without-failure"
  ELSE IF k = "run" /\ errs # {} THEN "run-after-failure-or-cancel"
  ELSE IF k = "run" /\ status[v] = "skip" THEN "run-of-skipped"
  ELSE "wrong-kind"
TLaunch   == IsEv("launch") /\
               (\/ SchedLaunch(Ev.id, Ev.k)
                \/ /\ ~ENABLED SchedLaunch(Ev.id, Ev.k)
                   /\ PrintT(ToJson([k |-> "DIAG", line |-> l, why |-> LaunchDiagnosis(Ev.id, Ev.k)]))
                   /\ FALSE)
TRecv     == IsEv("recv") /\ SchedRecv(Ev.id, Ev.k)
TIdle     == IsEv("idle") /\ SchedIdle
TObserved == IsEv("cancelobserved") /\ SchedCancelObserved
TAllDone  == IsEv("alldone") /\ SchedAllDone
TAcquiring == IsEv("acquiring") /\ Acquiring(Ev.id)
TLocking  == IsEv("locking") /\ Locking(Ev.id)
TAcquired == IsEv("acquired") /\ Acquire(Ev.id)
TLocked   == IsEv("locked") /\ Lock(Ev.id)
TEnter    == IsEv("enter") /\ Enter(Ev.id) /\ att'[Ev.id] = Ev.n
TFrag     == IsEv("frag") /\ Frag(Ev.id, Ev.tags[1])
TExit     == IsEv("exit") /\ Exit(Ev.id, Ev.k)
\* the writer receives one Write call: it must be exactly the pending output of one finished attempt
TWrite    == IsEv("write") /\ buffered /\ Ev.tags # <<>> /\ buf[Ev.id] = Ev.tags /\ Flush(Ev.id)
\* the writer received the pending output and reported an error
TWriteFail == IsEv("writefail") /\ buffered /\ Ev.tags # <<>> /\ buf[Ev.id] = Ev.tags /\ FlushFail(Ev.id)
\* the flush hook: the buffer was handed to the writer (nothing to do if the Write call was already seen)
TFlush    == IsEv("flush") /\ (IF w[Ev.id] = "flushed" THEN UNCHANGED vars ELSE buf[Ev.id] = <<>> /\ Flush(Ev.id))
TSending  == IsEv("sending") /\ Sending(Ev.id) /\ last[Ev.id] = Ev.k
TUnlock   == IsEv("unlocking") /\ Unlocking(Ev.id)
TRelease  == IsEv("releasing") /\ Releasing(Ev.id)
TCancel   == IsEv("cancel") /\ (IF phase = "run" /\ ~cancelled THEN Cancel ELSE UNCHANGED vars)
TEnvLock  == IsEv("envlock") /\ (IF Ev.id \in Tasks THEN EnvLock(Ev.id) ELSE UNCHANGED vars)
TEnvUnlock == IsEv("envunlock") /\ (IF Ev.id \in Tasks /\ lockBusy[Ev.id] THEN EnvUnlock(Ev.id) ELSE UNCHANGED vars)

\* Run returned: the spec must have returned too, with the same kind of result and the same entries
TReturned ==
  /\ IsEv("returned")
  /\ phase = "returned" /\ result = Ev.k
  /\ result = "errors" => ToSet(Ev.tags) = errs /\ Len(Ev.tags) = Cardinality(errs)
  /\ UNCHANGED vars

TraceInit == l = 1 /\ late = 0 /\ EmptyGraph /\ RunInit /\ limit = 1 /\ serial = FALSE /\ buffered = FALSE /\ phase = "build"

TraceNext ==
  /\ \/ TConfig \/ TAdd \/ TDep \/ TRetries \/ TDefErr \/ TSort \/ TRun
     \/ TTmAdd \/ TTmGet \/ TDot \/ TValidate \/ TRerun \/ TAllDoneAgain \/ TContinue \/ TSetLimit
     \/ TLaunch \/ TRecv \/ TIdle \/ TObserved \/ TAllDone
     \/ TAcquiring \/ TLocking \/ TAcquired \/ TLocked \/ TEnter \/ TFrag \/ TExit \/ TWrite \/ TWriteFail \/ TFlush \/ TSending \/ TUnlock \/ TRelease
     \/ TCancel \/ TEnvLock \/ TEnvUnlock \/ TReturned
  \* Every iteration of the scheduler's default branch looks at the context before it idles or launches. The
  \* controller logs `cancel`, ends the context and only then releases anybody: the scheduler can have been past that
  \* look in the iteration it was in, not in the next one (C14: once the end of the context has been observed ... -
  \* it has to be observed).
  /\ LET ev == Trace[l].ev
         cost == IF ev = "idle" THEN Trace[l].n ELSE IF ev = "launch" THEN 1 ELSE 0
         unseen == cancelled /\ ~handled /\ phase = "run"
     IN /\ (unseen /\ cost > 0) => late + cost <= 1
        /\ late' = IF ev \in {"cancel", "config", "run", "continue"} THEN 0
                   ELSE IF unseen THEN late + cost ELSE late
  /\ TLCSet(1, l)   \* high-water mark of consumed lines

TraceSpec == TraceInit /\ [][TraceNext]_tvars

(* Acceptance: every line consumed (high-water mark; -workers 1).  The     *)
(* line at which validation stopped is printed for attribution.            *)
Consumed == TLCGet(1)
AllConsumed ==
  \/ Consumed = Len(Trace)
  \/ PrintT(ToJson([k |-> "REJECT", line |-> Consumed + 1, ev |-> Trace[Consumed + 1]])) /\ FALSE

Safety ==
  /\ TypeOK
  /\ StartAfterDepsOk /\ AttemptsBounded /\ HBDepsBeforeEntry /\ NoRunAfterNil
  /\ NoDependentOfFailed /\ NoDependentOfSkipParents /\ ReportComplete /\ SkipParentsSilent /\ NoLaunchAfterCancelObserved
  /\ ExecBound /\ SerialOne /\ SerialHB /\ TaskMutex /\ BlocksWhole
  /\ CycleRejected /\ NoStartOnCycle /\ WorkConservingLaunch
=============================================================================
