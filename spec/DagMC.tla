------------------------------- MODULE DagMC -------------------------------
(***************************************************************************)
(* Exhaustive exploration of Dag.tla.                                      *)
(*  Mode "run":   every DAG over Tasks (edges from larger to smaller id),  *)
(*                every retry assignment, limit, serial / buffered choice; *)
(*                all interleavings of scheduler, workers, task outcomes   *)
(*                and cancellation.                                        *)
(*  Mode "build": every construction history of at most MaxHist calls      *)
(*                (incl. re-adding tasks, duplicate and self edges), then  *)
(*                Run.                                                     *)
(***************************************************************************)
EXTENDS Dag

CONSTANTS Mode, Limits, Serials, Buffereds, MaxHist, WithCancel, WithEnvLock, Outcomes, MaxFrags, WithTaskMap

VARIABLE hist   \* number of construction calls made (build mode)

mcvars == <<vars, hist>>

DownEdges == {e \in Tasks \X Tasks : e[1] > e[2]}

InitRunMode ==
  /\ \E E \in SUBSET DownEdges :
        deps = [t \in Tasks |-> {e[2] : e \in {x \in E : x[1] = t}}]
  /\ verts = Tasks
  /\ retries \in [Tasks -> 0..MaxRetries]
  /\ gerrs = 0
  /\ dot = <<>> /\ tmKnown = {} /\ tmErrs = 0

InitContMode ==   \* a first graph on a proper subset of the tasks
  /\ \E V \in (SUBSET Tasks) \ {Tasks} : \E E \in SUBSET {e \in DownEdges : e[1] \in V /\ e[2] \in V} :
        /\ verts = V
        /\ deps = [t \in Tasks |-> {e[2] : e \in {x \in E : x[1] = t}}]
  /\ retries = [t \in Tasks |-> 0]
  /\ gerrs = 0
  /\ dot = <<>> /\ tmKnown = {} /\ tmErrs = 0

Init ==
  /\ IF Mode = "run" THEN InitRunMode ELSE IF Mode = "cont" THEN InitContMode ELSE EmptyGraph
  /\ limit \in Limits /\ serial \in Serials /\ buffered \in Buffereds
  /\ phase = "build" /\ hist = 0
  /\ RunInit

Build ==
  /\ Mode = "build" /\ hist < MaxHist
  /\ hist' = hist + 1
  /\ \/ \E t \in Tasks : AddTask(t)
     \/ \E t, d \in Tasks : DependsOn(t, d)
     \/ \E t, d1, d2 \in Tasks : DependsOnSeq(t, <<d1, d2>>)
     \/ \E t \in Tasks : \E r \in 0..MaxRetries : (r # retries[t]) /\ SetRetries(t, r)
     \/ DefError
     \/ WithTaskMap /\ \E t \in Tasks : TmAdd(t)

RunStep ==
  \/ StartRun
  \/ \E v \in Tasks : \E k \in {"nil", "err", "skipparents", "skipped"} : SchedRecv(v, k)
  \/ SchedAllDone
  \/ SchedCancelObserved
  \/ \E v \in Tasks : \E k \in {"skip", "errskip", "run"} : SchedLaunch(v, k)
  \/ \E v \in Tasks : Acquiring(v) \/ Locking(v) \/ Acquire(v) \/ Lock(v) \/ Enter(v) \/ Flush(v) \/ Sending(v) \/ Unlocking(v) \/ Releasing(v)
  \/ \E v \in Tasks : \E o \in Outcomes : Exit(v, o)
  \/ \E v \in Tasks : Len(buf[v]) < MaxFrags /\ Frag(v, <<v, att[v], Len(buf[v]) + 1>>)
  \/ WithCancel /\ Cancel
  \/ WithEnvLock /\ \E v \in Tasks : EnvLock(v) \/ EnvUnlock(v)

\* Mode "cont": after a Run that returned nil the program adds the tasks not yet in the graph (with dependencies on
\* anything), possibly changes the limit, and runs the graph again
Cont ==
  /\ Mode = "cont"
  /\ \/ Continue /\ UNCHANGED hist
     \/ /\ att # [t \in Tasks |-> 0] /\ hist < MaxHist /\ hist' = hist + 1   \* building again after a run
        /\ \/ \E t \in Tasks \ verts : AddTask(t)
           \/ \E t \in Tasks : \E d \in Tasks : status[t] = "pending" /\ DependsOn(t, d)
           \/ \E n \in Limits : n # limit /\ SetLimit(n)

Next == Build \/ Cont \/ (RunStep /\ UNCHANGED hist)

Fairness ==
  /\ WF_mcvars(StartRun /\ UNCHANGED hist)
  /\ \A v \in Tasks : \A k \in {"nil", "err", "skipparents", "skipped"} : WF_mcvars(SchedRecv(v, k) /\ UNCHANGED hist)
  /\ WF_mcvars(SchedAllDone /\ UNCHANGED hist)
  /\ WF_mcvars(SchedCancelObserved /\ UNCHANGED hist)
  /\ \A v \in Tasks : \A k \in {"skip", "errskip", "run"} : WF_mcvars(SchedLaunch(v, k) /\ UNCHANGED hist)
  /\ \A v \in Tasks : /\ WF_mcvars(Acquiring(v) /\ UNCHANGED hist) /\ WF_mcvars(Locking(v) /\ UNCHANGED hist)
                      /\ SF_mcvars(Acquire(v) /\ UNCHANGED hist) /\ SF_mcvars(Lock(v) /\ UNCHANGED hist)
                      /\ WF_mcvars(Enter(v) /\ UNCHANGED hist) /\ WF_mcvars(Flush(v) /\ UNCHANGED hist)
                      /\ WF_mcvars(Sending(v) /\ UNCHANGED hist) /\ WF_mcvars(Unlocking(v) /\ UNCHANGED hist)
                      /\ WF_mcvars(Releasing(v) /\ UNCHANGED hist)
                      /\ WF_mcvars((\E o \in Outcomes : Exit(v, o)) /\ UNCHANGED hist)
                      /\ WF_mcvars(EnvUnlock(v) /\ UNCHANGED hist)

Spec == Init /\ [][Next]_mcvars
LiveSpec == Init /\ [][Next]_mcvars /\ Fairness

(* C16: Run returns in every fair schedule in which each started task returns *)
Termination == <>(phase = "returned")
(* C16: absent failure and cancellation a ready task is started while capacity remains *)
ReadyStarts ==
  \A v \in Tasks : (phase = "run" /\ Ready(v)) ~> (att[v] > 0 \/ errs # {} \/ cancelled \/ status[v] = "skip")
(* C14: a task that was launched is allowed to finish (its worker reaches its end) *)
InFlightFinish == \A v \in Tasks : (w[v] = "spawned") ~> (w[v] = "fin")

Safety ==
  /\ TypeOK
  /\ StartAfterDepsOk /\ AttemptsBounded /\ HBDepsBeforeEntry /\ NoRunAfterNil
  /\ NoDependentOfFailed /\ NoDependentOfSkipParents /\ ReportComplete /\ SkipParentsSilent /\ NoLaunchAfterCancelObserved
  /\ ExecBound /\ SerialOne /\ SerialHB /\ TaskMutex /\ BlocksWhole
  /\ CycleRejected /\ NoStartOnCycle /\ WorkConservingLaunch
  /\ (Mode = "build" => DotComplete)
=============================================================================
