------------------------------- MODULE DagSim -------------------------------
(***************************************************************************)
(* Behaviours of Dag.tla for replay on the real code (model -> code): the  *)
(* same actions as DagMC with a history variable recording the action      *)
(* labels; when Run returns the graph and the schedule are printed as one  *)
(* JSON line.  Used with `tlc -simulate`; dagdrive `follow` then steers    *)
(* the real scheduler and workers through the recorded schedule.           *)
(***************************************************************************)
EXTENDS DagMC, Json

VARIABLE trail
svars == <<mcvars, trail>>

L(a, v, k, A) == A /\ UNCHANGED hist /\ trail' = Append(trail, <<a, v, k>>)

SimInit == Init /\ trail = <<>>

SimNext ==
  \/ L("start", 0, "", StartRun)
  \/ \E v \in Tasks : \E k \in {"nil", "err", "skipparents", "skipped"} : L("recv", v, k, SchedRecv(v, k))
  \/ L("alldone", 0, "", SchedAllDone)
  \/ L("cancelobserved", 0, "", SchedCancelObserved)
  \/ \E v \in Tasks : \E k \in {"skip", "errskip", "run"} : L("launch", v, k, SchedLaunch(v, k))
  \/ \E v \in Tasks :
       \/ L("acquiring", v, "", Acquiring(v)) \/ L("acquired", v, "", Acquire(v))
       \/ L("locking", v, "", Locking(v)) \/ L("locked", v, "", Lock(v))
       \/ L("enter", v, "", Enter(v)) \/ L("sending", v, "", Sending(v))
       \/ L("unlocking", v, "", Unlocking(v)) \/ L("releasing", v, "", Releasing(v))
  \/ \E v \in Tasks : \E o \in Outcomes : L("exit", v, o, Exit(v, o))
  \/ WithCancel /\ L("cancel", 0, "", Cancel)

SimSpec == SimInit /\ [][SimNext]_svars

(* printed once per behaviour, in the state right after Run returned *)
EmitBehaviour ==
  (phase = "returned" /\ trail # <<>> /\ trail[Len(trail)][1] \in {"alldone", "start"}) =>
     PrintT(ToJson([k |-> "BEHAVIOUR",
                    deps |-> [t \in Tasks |-> deps[t]], retries |-> [t \in Tasks |-> retries[t]],
                    limit |-> limit, serial |-> serial, result |-> result, trail |-> trail]))
=============================================================================
