#!/bin/sh
# One-time setup after a fresh restore: syntax-check every TLA+ module and build the harness once (offline).
set -e
cd "$(dirname "$0")"
export GOFLAGS=-mod=mod GOPROXY=off GOSUMDB=off GOTOOLCHAIN=local
mkdir -p .work/gocache evidence replays
export GOCACHE="$PWD/.work/gocache"
for m in spec/*.tla; do
  (cd spec && tla-sany "$(basename "$m")" >/dev/null) || { echo "tla-sany failed on $m"; exit 1; }
done
cp /repo/go.sum harness/go.sum 2>/dev/null || true
(cd harness && go build -tags verif -o ../.work/gopt.setup ./cmd/... ) || (cd harness && go build -tags verif ./...)
rm -f .work/gopt.setup
echo setup ok
