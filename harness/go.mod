module verifharness

go 1.23

require github.com/DavidGamba/go-getoptions v0.0.0

replace github.com/DavidGamba/go-getoptions => /repo
