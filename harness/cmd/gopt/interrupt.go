package main

import (
	"bufio"
	"bytes"
	"encoding/json"
	"flag"
	"fmt"
	"math/rand"
	"os"
	"os/signal"
	"strings"
	"syscall"
	"time"

	"github.com/DavidGamba/go-getoptions"
)

// interrupt -n N -seed S -out TRACE: exercises getoptions.InterruptContext (signal first, cancel first, both) and
// records what was observed, for validation against spec/Interrupt.tla.
func cmdInterrupt(args []string) {
	fs := flag.NewFlagSet("interrupt", flag.ExitOnError)
	n := fs.Int("n", 50, "scenarios")
	seed := fs.Int64("seed", 1, "seed")
	out := fs.String("out", "", "trace file")
	fs.Parse(args)
	// backstop: the process itself never dies from the signals it sends to itself
	keep := make(chan os.Signal, 16)
	signal.Notify(keep, os.Interrupt, syscall.SIGHUP, syscall.SIGTERM)
	r := rand.New(rand.NewSource(*seed))
	f, err := os.Create(*out)
	if err != nil {
		die("%v", err)
	}
	w := bufio.NewWriter(f)
	emit := func(v map[string]interface{}) {
		b, _ := json.Marshal(v)
		w.Write(b)
		w.WriteByte('\n')
	}
	sigs := []syscall.Signal{syscall.SIGINT, syscall.SIGHUP, syscall.SIGTERM}
	bad := 0
	for i := 0; i < *n; i++ {
		var buf bytes.Buffer
		getoptions.Writer = &buf
		ctx, cancel, done := getoptions.InterruptContext()
		emit(map[string]interface{}{"ev": "new", "written": 0, "ctxdone": false, "done": 0})
		switch r.Intn(3) {
		case 0:
			emit(map[string]interface{}{"ev": "cancel", "written": 0, "ctxdone": false, "done": 0})
			cancel()
		case 1:
			emit(map[string]interface{}{"ev": "signal", "written": 0, "ctxdone": false, "done": 0})
			syscall.Kill(syscall.Getpid(), sigs[r.Intn(3)])
		default:
			emit(map[string]interface{}{"ev": "signal", "written": 0, "ctxdone": false, "done": 0})
			syscall.Kill(syscall.Getpid(), sigs[r.Intn(3)])
			time.Sleep(time.Duration(r.Intn(300)) * time.Microsecond)
			emit(map[string]interface{}{"ev": "cancel", "written": 0, "ctxdone": false, "done": 0})
			cancel()
		}
		got := 0
		select {
		case <-done:
			got = 1
		case <-time.After(5 * time.Second):
			bad++
		}
		written := strings.Count(buf.String(), "Interrupt signal received")
		emit(map[string]interface{}{"ev": "observed", "written": written, "ctxdone": ctx.Err() != nil, "done": got})
		cancel()
	}
	getoptions.Writer = os.Stderr
	w.Flush()
	f.Close()
	fmt.Printf("interrupt cases=%d stuck=%d\n", *n, bad)
}
