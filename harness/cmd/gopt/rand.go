package main

func cmdRand(args []string) { die("not implemented yet") }
