package main

import (
	"bufio"
	"encoding/json"
	"flag"
	"fmt"
	"math/rand"
	"os"

	"verifharness/gh"
)

// rand -prop ID -n N -seed S -out TRACE: seeded random definitions and command lines for one property's
// driver profile, run on the real library.
func cmdRand(args []string) {
	fs := flag.NewFlagSet("rand", flag.ExitOnError)
	prop := fs.String("prop", "", "profile name")
	n := fs.Int("n", 1000, "number of cases")
	seed := fs.Int64("seed", 1, "seed")
	out := fs.String("out", "", "trace file")
	idBase := fs.Int("idbase", 1000000000, "first case id")
	fs.Parse(args)
	p, ok := gh.Profiles[*prop]
	if !ok {
		die("no profile %s", *prop)
	}
	r := rand.New(rand.NewSource(*seed))
	f, err := os.Create(*out)
	if err != nil {
		die("%v", err)
	}
	w := bufio.NewWriterSize(f, 1<<20)
	cases, nontrivial, id, defID := 0, 0, 0, 0
	seen := map[string]bool{}
	for cases < *n {
		defID++
		cfg := gh.GenDef(r, &p)
		d := gh.Def{Ev: "def", ID: defID, Cfg: cfg, Disp: p.Disp, SP: true}
		per := 1 + r.Intn(6)
		argvs := [][]gh.Tok{}
		all := []gh.Tok{}
		for k := 0; k < per; k++ {
			var a []gh.Tok
			if p.Comp {
				a = gh.ToksOf(gh.GenCompLine(r, &p, &cfg))
			} else {
				a = gh.ToksOf(gh.GenArgv(r, &p, &cfg))
			}
			argvs = append(argvs, a)
			all = append(all, a...)
		}
		d.Orc = gh.OracleFor(&d.Cfg, all)
		base := gh.Case{Ev: "case", Def: defID, Argv: []gh.Tok{}, Disp: p.Disp}
		baseRaw := gh.RunCase(&d, &base).Raw
		block := [][]byte{}
		for _, a := range argvs {
			id++
			c := gh.Case{Ev: "case", Def: defID, ID: *idBase + id, Argv: a, Disp: p.Disp}
			if !p.Comp && r.Float64() < p.Again {
				// history case: some other argument list of the block was parsed on the same object before
				c.HasPre = true
				c.Pre = argvs[r.Intn(len(argvs))]
				if r.Intn(3) == 0 {
					c.Pre = []gh.Tok{}
				}
				c.PreEarly = r.Intn(2) == 0
			}
			if p.Comp {
				c.Comp = []string{"bash", "zsh"}[r.Intn(2)]
			}
			c.Res = gh.RunCase(&d, &c)
			line, _ := json.Marshal(&c)
			block = append(block, line)
			cases++
			countCase(&c)
			key := fmt.Sprintf("%v|%v", d.Cfg, a)
			if c.Res.Raw != baseRaw && !seen[key] {
				nontrivial++
			}
			seen[key] = true
			if c.Res.Hang {
				writeBlock(w, &d, block)
				w.Flush()
				fmt.Printf("HANG case=%d\n", id)
				fmt.Printf("rand cases=%d nontrivial=%d\n", cases, nontrivial)
				os.Exit(3)
			}
		}
		if p.HelpCases {
			for n := range d.Cfg.Nodes {
				if d.Cfg.Nodes[n].IsHelp {
					continue
				}
				id++
				c := gh.Case{Ev: "case", Def: defID, ID: *idBase + id, Argv: []gh.Tok{}, Comp: "help", HN: n + 1}
				c.Res = gh.RunCase(&d, &c)
				line, _ := json.Marshal(&c)
				block = append(block, line)
				cases++
				nontrivial++
				stats["help-case"]++
			}
		}
		writeBlock(w, &d, block)
	}
	w.Flush()
	f.Close()
	fmt.Printf("rand cases=%d nontrivial=%d\n", cases, nontrivial)
	printStats()
}

// rerun -in REPLAY.json -out TRACE: run the recorded case again on the current tree.
func cmdRerun(args []string) {
	fs := flag.NewFlagSet("rerun", flag.ExitOnError)
	in := fs.String("in", "", "replay file")
	out := fs.String("out", "", "trace file")
	fs.Parse(args)
	b, err := os.ReadFile(*in)
	if err != nil {
		die("%v", err)
	}
	var rec struct {
		Def  gh.Def  `json:"def"`
		Case gh.Case `json:"case"`
	}
	if err := json.Unmarshal(b, &rec); err != nil {
		die("bad replay file: %v", err)
	}
	rec.Def.Cfg.Normalize()
	rec.Def.Ev = "def"
	rec.Case.Ev = "case"
	rec.Def.SP = true
	rec.Def.Orc = gh.OracleFor(&rec.Def.Cfg, rec.Case.Argv)
	rec.Case.Res = gh.RunCase(&rec.Def, &rec.Case)
	f, err := os.Create(*out)
	if err != nil {
		die("%v", err)
	}
	w := bufio.NewWriter(f)
	line, _ := json.Marshal(&rec.Case)
	writeBlock(w, &rec.Def, [][]byte{line})
	w.Flush()
	f.Close()
	fmt.Printf("rerun cases=1\n")
}
