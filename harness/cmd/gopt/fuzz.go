package main

import (
	"bufio"
	"encoding/json"
	"flag"
	"fmt"
	"math/rand"
	"os"
	"path/filepath"
	"strings"
	"time"
	"unicode/utf8"

	"verifharness/gh"
)

// fuzz -n N -seed S -out TRACE -fail DIR: byte-level robustness driver (C19). Tokens, COMP_LINE words and
// environment values are built from raw random bytes, very long tokens and deep bundles; every call runs under
// recover and a watchdog. Cases whose tokens can be represented faithfully as atoms are also written to a
// trace for validation against the specification.
func cmdFuzz(args []string) {
	fs := flag.NewFlagSet("fuzz", flag.ExitOnError)
	n := fs.Int("n", 1000, "cases")
	seed := fs.Int64("seed", 1, "seed")
	out := fs.String("out", "", "trace file (validated subset)")
	failDir := fs.String("fail", "", "directory for failing cases")
	idBase := fs.Int("idbase", 1000000000, "first case id")
	fs.Parse(args)
	if os.Getenv("GOPT_TIMEOUT_S") == "" {
		gh.CaseTimeout = 3 * time.Second
	}
	r := rand.New(rand.NewSource(*seed))
	p := gh.Profiles["C19"]
	f, err := os.Create(*out)
	if err != nil {
		die("%v", err)
	}
	w := bufio.NewWriterSize(f, 1<<20)
	cases, nontrivial, id, defID, validated, fails := 0, 0, 0, 0, 0, 0
	seen := map[string]bool{}
	for cases < *n {
		defID++
		cfg := gh.GenDef(r, &p)
		disp := r.Intn(2) == 0
		d := gh.Def{Ev: "def", ID: defID, Cfg: cfg, Disp: disp, SP: true}
		per := 1 + r.Intn(6)
		type cs struct {
			argv    []string
			comp    string
			raw     bool
			rawLine string
			rawArgs []string
		}
		list := []cs{}
		all := []gh.Tok{}
		for k := 0; k < per; k++ {
			c := cs{}
			if r.Intn(12) == 0 {
				// a verbatim COMP_LINE (white space only, leading / repeated white space, no program name ...)
				// with arbitrary Parse arguments
				c.comp = []string{"bash", "zsh"}[r.Intn(2)]
				c.raw = true
				c.rawLine = rawCompLine(r, &cfg)
				for k := r.Intn(5); k > 0; k-- {
					c.rawArgs = append(c.rawArgs, []string{"", "prog", "x", "--", "-", fuzzToken(r, &cfg)}[r.Intn(6)])
				}
				c.argv = []string{}
			} else if r.Intn(4) == 0 {
				c.comp = []string{"bash", "zsh"}[r.Intn(2)]
				c.argv = gh.GenCompLine(r, &p, &cfg)
				for i := range c.argv {
					if i > 0 && r.Intn(4) == 0 {
						c.argv[i] = noSpace(fuzzToken(r, &cfg))
					}
					// the line travels through an environment variable: no NUL bytes
					c.argv[i] = strings.ReplaceAll(c.argv[i], "\x00", "0")
				}
			} else {
				c.argv = gh.GenArgv(r, &p, &cfg)
				for i := range c.argv {
					if r.Intn(3) == 0 {
						c.argv[i] = fuzzToken(r, &cfg)
					}
				}
				for r.Intn(3) == 0 {
					c.argv = append(c.argv, fuzzToken(r, &cfg))
				}
			}
			list = append(list, c)
			all = append(all, gh.ToksOf(c.argv)...)
		}
		d.Orc = gh.OracleFor(&d.Cfg, all)
		base := gh.Case{Ev: "case", Def: defID, Argv: []gh.Tok{}, Disp: disp}
		baseRaw := gh.RunCase(&d, &base).Raw
		block := [][]byte{}
		for _, c := range list {
			id++
			cc := gh.Case{Ev: "case", Def: defID, ID: *idBase + id, Argv: gh.ToksOf(c.argv), Disp: disp && c.comp == "", Comp: c.comp,
				UseRaw: c.raw, RawLine: c.rawLine, RawArgs: c.rawArgs}
			cc.Res = gh.RunCase(&d, &cc)
			cases++
			countCase(&cc)
			key := fmt.Sprintf("%v|%q|%s", d.Cfg, c.argv, c.comp)
			if cc.Res.Raw != baseRaw && !seen[key] {
				nontrivial++
			}
			seen[key] = true
			bad := ""
			switch {
			case cc.Res.Panic != "":
				bad = "panic"
			case cc.Res.Hang:
				bad = "hang"
			case c.comp == "" && cc.Res.Err.Kind != "" && !cc.Res.RestNil:
				bad = "non-nil remaining with an error"
			case c.comp != "" && len(cc.Res.Exits) != 1:
				bad = "completion did not leave through the exit path exactly once"
			}
			if bad != "" {
				fails++
				name := filepath.Join(*failDir, fmt.Sprintf("fuzz-%d-%d.json", *seed, id))
				rec := map[string]interface{}{"property": "C19", "def": &d, "case": &cc, "bad": bad}
				b, _ := json.MarshalIndent(rec, "", " ")
				os.MkdirAll(*failDir, 0o755)
				os.WriteFile(name, b, 0o644)
				fmt.Printf("FUZZFAIL kind=%q file=%s argv=%q\n", bad, name, c.argv)
			}
			if !c.raw && atomSafe(&cfg, c.argv, c.comp) {
				line, _ := json.Marshal(&cc)
				block = append(block, line)
				validated++
			}
			if cc.Res.Hang {
				// the hung goroutine may be allocating without bound: stop this process now
				writeBlock(w, &d, block)
				w.Flush()
				fmt.Printf("fuzz cases=%d nontrivial=%d validated=%d fails=%d\n", cases, nontrivial, validated, fails)
				printStats()
				os.Exit(3)
			}
		}
		writeBlock(w, &d, block)
	}
	w.Flush()
	f.Close()
	fmt.Printf("fuzz cases=%d nontrivial=%d validated=%d fails=%d\n", cases, nontrivial, validated, fails)
	printStats()
}

func rawCompLine(r *rand.Rand, c *gh.Cfg) string {
	ws := []string{" ", "  ", "\t", "\n", " \t ", "\r\n", "\f"}
	switch r.Intn(6) {
	case 0:
		return ws[r.Intn(len(ws))]
	case 1:
		return ws[r.Intn(len(ws))] + ws[r.Intn(len(ws))]
	case 2:
		return ws[r.Intn(len(ws))] + "prog" + ws[r.Intn(len(ws))]
	case 3:
		return "prog" + ws[r.Intn(len(ws))] + noNul(fuzzToken(r, c)) + ws[r.Intn(len(ws))]
	case 4:
		return noNul(fuzzToken(r, c))
	default:
		return "prog " + strings.Join([]string{noNul(fuzzToken(r, c)), noNul(fuzzToken(r, c))}, ws[r.Intn(len(ws))])
	}
}

func noNul(s string) string {
	s = strings.ReplaceAll(s, "\x00", "0")
	if s == "" {
		return "x"
	}
	return s
}

func noSpace(s string) string {
	return strings.Map(func(r rune) rune {
		switch r {
		case ' ', '\t', '\n', '\f', '\r':
			return '_'
		}
		return r
	}, s)
}

var rangePool = []string{"9223372036854775805..9223372036854775807", "-9223372036854775808..-9223372036854775806", "0..10000", "5..4", "1..2..3",
	"9223372036854775807..9223372036854775807", "-3..3", "9223372036854775806..9223372036854775807"}

func fuzzToken(r *rand.Rand, c *gh.Cfg) string {
	keys := []string{"x"}
	for _, o := range c.Opts {
		keys = append(keys, gh.FromAtoms(o.Name))
	}
	switch r.Intn(10) {
	case 0: // raw bytes
		b := make([]byte, r.Intn(24))
		r.Read(b)
		return string(b)
	case 1: // raw bytes behind dashes
		b := make([]byte, 1+r.Intn(12))
		r.Read(b)
		return []string{"-", "--"}[r.Intn(2)] + string(b)
	case 2: // very long token
		return []string{"", "-", "--", "--x="}[r.Intn(4)] + strings.Repeat(string(rune('a'+r.Intn(26))), 1000+r.Intn(3000))
	case 3: // deep bundle
		sb := strings.Builder{}
		sb.WriteString("-")
		for i := 0; i < 200+r.Intn(1000); i++ {
			sb.WriteString(string([]rune(keys[r.Intn(len(keys))])[:1]))
		}
		return sb.String()
	case 4: // option with a raw value
		b := make([]byte, r.Intn(10))
		r.Read(b)
		return "--" + keys[r.Intn(len(keys))] + "=" + string(b)
	case 5: // int ranges incl. the boundaries (spans <= 10^4)
		return "--" + keys[r.Intn(len(keys))] + "=" + rangePool[r.Intn(len(rangePool))]
	case 6:
		return rangePool[r.Intn(len(rangePool))]
	case 7: // a known token with one byte damaged
		t := []byte("--" + keys[r.Intn(len(keys))] + "=v")
		t[r.Intn(len(t))] = byte(r.Intn(256))
		return string(t)
	case 8:
		return []string{"", "-", "--", "---", "-=", "--=", "=", "\x00", "-\x00", "--\xff"}[r.Intn(10)]
	default: // truncated multi-byte sequence
		s := "--é日😀"
		return s[:3+r.Intn(len(s)-3)]
	}
}

// atomSafe - can the case be represented faithfully by atoms (see DESIGN.md: byte prefixes of declared
// names, []rune conversion of stray bytes in SingleDash mode, very long tokens)?
func atomSafe(c *gh.Cfg, argv []string, comp string) bool {
	for _, t := range argv {
		if len(t) > 64 {
			return false
		}
		if strings.Contains(t, "'\n") || strings.ContainsAny(t, "[]") && strings.HasPrefix(t, "-") {
			return false
		}
		if utf8.ValidString(t) {
			continue
		}
		if comp != "" {
			return false
		}

		for i := 0; i < len(t); {
			rn, size := utf8.DecodeRuneInString(t[i:])
			if rn == utf8.RuneError && size == 1 {
				b := t[i]
				if !(b >= 0x80 && b <= 0xBF || b >= 0xF5) {
					return false // a lead byte alone could be a byte-prefix of a declared multi-byte name
				}
			}
			i += size
		}
		// stray bytes only in value position: not in the name part of an option token
		if strings.HasPrefix(t, "-") {
			name := t
			if i := strings.Index(t, "="); i >= 0 {
				name = t[:i]
			}
			if c.Mode == 2 && !strings.HasPrefix(t, "--") && len(t) > 1 {
				// SingleDash: only the first letter is a name, the rest is a value
				_, size := utf8.DecodeRuneInString(t[1:])
				name = t[:1+size]
			}
			if !utf8.ValidString(name) {
				return false
			}
		}
	}
	return true
}
