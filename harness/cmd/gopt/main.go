// gopt - conformance harness driver for the go-getoptions parser.
package main

import (
	"bufio"
	"encoding/json"
	"flag"
	"fmt"
	"os"
	"path/filepath"
	"time"

	"verifharness/gh"
)

func die(f string, a ...interface{}) {
	fmt.Fprintf(os.Stderr, "gopt: "+f+"\n", a...)
	os.Exit(2)
}

func main() {
	if v := os.Getenv("GOPT_REPEAT"); v != "" {
		fmt.Sscan(v, &gh.Repeat)
	}
	if v := os.Getenv("GOPT_TIMEOUT_S"); v != "" {
		var n int
		fmt.Sscan(v, &n)
		if n > 0 {
			gh.CaseTimeout = time.Duration(n) * time.Second
		}
	}
	if len(os.Args) < 2 {
		die("usage: gopt families|enum|rand ...")
	}
	switch os.Args[1] {
	case "families":
		cmdFamilies(os.Args[2:])
	case "enum":
		cmdEnum(os.Args[2:])
	case "rand":
		cmdRand(os.Args[2:])
	case "rerun":
		cmdRerun(os.Args[2:])
	case "fuzz":
		cmdFuzz(os.Args[2:])
	case "interrupt":
		cmdInterrupt(os.Args[2:])
	case "compchild":
		gh.CompChild()
	default:
		die("unknown sub-command %s", os.Args[1])
	}
}

// stats - histogram of outcome classes over the executed cases (printed for the evidence file).
var stats = map[string]int{}

func countCase(c *gh.Case) {
	r := &c.Res
	stats["err:"+r.Err.Kind]++
	if c.Disp && r.Err.Kind == "" {
		stats["dispatch:"+r.DErr]++
		if len(r.Ran) > 0 {
			stats["fn-ran"]++
		}
		if r.HelpOf > 0 {
			stats["help-printed"]++
		}
	}
	if len(r.Warn) > 0 {
		stats["warned"]++
	}
	if len(r.Rest) > 0 {
		stats["remaining-nonempty"]++
	}
	if c.Comp != "" {
		stats["completion:"+c.Comp]++
		if len(r.Comps) > 0 {
			stats["completion-nonempty"]++
		}
	}
	for _, b := range r.Called {
		if b {
			stats["some-option-called"]++
			break
		}
	}
	if r.Panic != "" {
		stats["panic"]++
	}
}

func printStats() {
	b, _ := json.Marshal(stats)
	fmt.Printf("STATS %s\n", b)
}

func writeLine(w *bufio.Writer, v interface{}) {
	b, err := json.Marshal(v)
	if err != nil {
		die("marshal: %v", err)
	}
	w.Write(b)
	w.WriteByte('\n')
}

// families -out DIR -tier quick|thorough [-only name,...]
func cmdFamilies(args []string) {
	fs := flag.NewFlagSet("families", flag.ExitOnError)
	out := fs.String("out", "", "output directory")
	tier := fs.String("tier", "quick", "quick|thorough")
	fs.Parse(args)
	os.MkdirAll(*out, 0o755)
	for _, fam := range gh.Families(*tier) {
		f, err := os.Create(filepath.Join(*out, fam.Name+".ndjson"))
		if err != nil {
			die("%v", err)
		}
		w := bufio.NewWriter(f)
		for i := range fam.Defs {
			d := &fam.Defs[i]
			d.Ev = "def"
			d.ID = i + 1
			d.Name = fam.Name
			d.Cfg.Normalize()
			d.Orc = gh.OracleFor(&d.Cfg, d.Tokens)
			writeLine(w, d)
		}
		w.Flush()
		f.Close()
		fmt.Printf("family %s defs=%d\n", fam.Name, len(fam.Defs))
	}
}

// writeBlock - a definition line followed by its case lines.
func writeBlock(w *bufio.Writer, d *gh.Def, block [][]byte) {
	if len(block) == 0 {
		return
	}
	dd := *d
	dd.Tokens = []gh.Tok{}
	dd.N = len(block)
	writeLine(w, &dd)
	for _, l := range block {
		w.Write(l)
		w.WriteByte('\n')
	}
}

func readDefs(path string) []gh.Def {
	f, err := os.Open(path)
	if err != nil {
		die("%v", err)
	}
	defer f.Close()
	sc := bufio.NewScanner(f)
	sc.Buffer(make([]byte, 1<<20), 1<<28)
	defs := []gh.Def{}
	for sc.Scan() {
		var d gh.Def
		if err := json.Unmarshal(sc.Bytes(), &d); err != nil {
			die("bad def line: %v", err)
		}
		defs = append(defs, d)
	}
	return defs
}

// enum -fam FILE -out TRACE [-shard k -of n] [-L n]
// Enumerates every argv of length <= L over the family's token alphabet for every definition of the family,
// runs the real library and records the outcome.
func cmdEnum(args []string) {
	fs := flag.NewFlagSet("enum", flag.ExitOnError)
	fam := fs.String("fam", "", "family file")
	out := fs.String("out", "", "trace file")
	shard := fs.Int("shard", 0, "shard index")
	of := fs.Int("of", 1, "number of shards")
	lOverride := fs.Int("L", 0, "override argv length bound")
	idBase := fs.Int("idbase", 0, "first case id")
	fs.Parse(args)
	defs := readDefs(*fam)
	f, err := os.Create(*out)
	if err != nil {
		die("%v", err)
	}
	w := bufio.NewWriterSize(f, 1<<20)
	id := 0
	cases := 0
	nontrivial := 0
	for di := range defs {
		d := &defs[di]
		L := d.L
		if *lOverride > 0 {
			L = *lOverride
		}
		block := [][]byte{}
		base := gh.Case{Ev: "case", Def: d.ID, Argv: []gh.Tok{}, Disp: d.Disp}
		baseRaw := gh.RunCase(d, &base).Raw
		if d.HelpF && *shard == 0 {
			for n := range d.Cfg.Nodes {
				if d.Cfg.Nodes[n].IsHelp {
					continue
				}
				id++
				c := gh.Case{Ev: "case", Def: d.ID, ID: *idBase + 40000000 + 100*d.ID + n, Argv: []gh.Tok{}, Comp: "help", HN: n + 1, NDOnly: d.NDOnly}
				c.Res = gh.RunCase(d, &c)
				line, _ := json.Marshal(&c)
				block = append(block, line)
				cases++
				nontrivial++
				stats["help-case"]++
			}
		}
		idx := make([]int, 0, L)
		var rec func()
		rec = func() {
			id++
			if id%*of == *shard {
				argv := make([]gh.Tok, len(idx))
				for k, t := range idx {
					argv[k] = d.Tokens[t]
				}
				targets := []string{""}
				if d.Comp {
					targets = []string{"bash", "zsh"}
					argv = append([]gh.Tok{d.Cfg.Prog}, argv...)
				}
				for pi, pre := range d.Pres {
					for early := 0; early < 2; early++ {
						if early == 1 && d.Cfg.HelpOpt() == 0 && !d.Cfg.OptsLate {
							continue
						}
						c := gh.Case{Ev: "case", Def: d.ID, ID: *idBase + 45000000 + 16*id + 2*pi + early, Argv: argv, Disp: d.Disp, HasPre: true, Pre: pre, PreEarly: early == 1}
						c.Res = gh.RunCase(d, &c)
						line, _ := json.Marshal(&c)
						block = append(block, line)
						cases++
						stats["history-case"]++
					}
				}
				for ti, target := range targets {
					c := gh.Case{Ev: "case", Def: d.ID, ID: *idBase + 2*id + ti, Argv: argv, Disp: d.Disp, Comp: target, NDOnly: d.NDOnly}
					c.Res = gh.RunCase(d, &c)
					line, _ := json.Marshal(&c)
					block = append(block, line)
					cases++
					countCase(&c)
					if c.Res.Raw != baseRaw {
						nontrivial++
					}
					if c.Res.Hang {
						writeBlock(w, d, block)
						w.Flush()
						fmt.Printf("HANG case=%d\n", id)
						os.Exit(3)
					}
				}
			}
			if len(idx) == L {
				return
			}
			for t := range d.Tokens {
				idx = append(idx, t)
				rec()
				idx = idx[:len(idx)-1]
			}
		}
		rec()
		writeBlock(w, d, block)
	}
	w.Flush()
	f.Close()
	fmt.Printf("enum cases=%d nontrivial=%d\n", cases, nontrivial)
	printStats()
}
