// dagdrive - conformance harness driver for dag.Graph.
package main

import (
	"bufio"
	"bytes"
	"context"
	"encoding/json"
	"flag"
	"fmt"
	"io"
	"log"
	"math/rand"
	"os"
	"sync"
	"time"

	"github.com/DavidGamba/go-getoptions"
	"github.com/DavidGamba/go-getoptions/dag"

	"verifharness/dh"
)

func die(f string, a ...interface{}) {
	fmt.Fprintf(os.Stderr, "dagdrive: "+f+"\n", a...)
	os.Exit(2)
}

func main() {
	if len(os.Args) < 2 {
		die("usage: dagdrive rand|two|race|rerun ...")
	}
	switch os.Args[1] {
	case "rand":
		cmdRand(os.Args[2:])
	case "two":
		cmdTwo(os.Args[2:])
	case "exhaust":
		cmdExhaust(os.Args[2:])
	case "follow":
		cmdFollow(os.Args[2:])
	case "race":
		cmdRace(os.Args[2:])
	case "rerun":
		cmdRerun(os.Args[2:])
	default:
		die("unknown sub-command %s", os.Args[1])
	}
}

var stats = map[string]int{}

func writeEvents(w *bufio.Writer, evs []dh.Event) {
	for i := range evs {
		b, _ := json.Marshal(&evs[i])
		w.Write(b)
		w.WriteByte('\n')
	}
}

func summarize(evs []dh.Event) (result string, nontrivial bool) {
	result = "none"
	entered := 0
	for _, e := range evs {
		switch e.Ev {
		case "returned":
			result = e.K
		case "enter":
			entered++
		case "cancelobserved":
			stats["cancel-observed"]++
		case "recv":
			stats["recv:"+e.K]++
		case "launch":
			stats["launch:"+e.K]++
		case "write":
			stats["buffer-blocks"]++
		}
	}
	stats["result:"+result]++
	return result, entered >= 2
}

// rand -n N -seed S -maxv V -weird P -out FILE [-plans FILE]: seeded random graphs / outcomes / schedules.
func cmdRand(args []string) {
	fs := flag.NewFlagSet("rand", flag.ExitOnError)
	n := fs.Int("n", 100, "runs")
	seed := fs.Int64("seed", 1, "seed")
	maxv := fs.Int("maxv", 4, "max vertices")
	weird := fs.Float64("weird", 0.25, "probability of unusual construction calls")
	out := fs.String("out", "", "trace file")
	plansOut := fs.String("plans", "", "also write the plans (for replay)")
	runBase := fs.Int("runbase", 0, "first run number")
	fill := fs.Bool("fill", false, "fill-the-semaphore schedule: limit 2 or 3, not serial, workers held inside their function until the limit is reached")
	wide := fs.Bool("wide", false, "graphs of 7-8 vertices with five and more dependencies per vertex")
	fs.Parse(args)
	dh.Wide = *wide
	r := rand.New(rand.NewSource(*seed))
	f, err := os.Create(*out)
	if err != nil {
		die("%v", err)
	}
	w := bufio.NewWriterSize(f, 1<<20)
	var pw *bufio.Writer
	if *plansOut != "" {
		pf, err := os.Create(*plansOut)
		if err != nil {
			die("%v", err)
		}
		defer pf.Close()
		pw = bufio.NewWriter(pf)
		defer pw.Flush()
	}
	cases, nontrivial, hangs := 0, 0, 0
	seen := map[string]bool{}
	for i := 0; i < *n; i++ {
		p := dh.GenPlan(r, *maxv, *weird)
		if *fill {
			p.Fill = true
			p.Serial = false
			p.Limit = 2 + r.Intn(2)
			p.CancelAt = -1
			if p.Cont != nil && r.Intn(2) == 0 {
				// a narrow first round, a wider second one
				p.Limit = 1
				p.Cont.Limit = 2 + r.Intn(2)
			}
		}
		p.Run = *runBase + i + 1
		p.G = fmt.Sprintf("g%d", p.Run)
		if pw != nil {
			// written (and flushed) before the run: if the library takes the whole process down, the plan is on disk
			b, _ := json.Marshal(&p)
			pw.Write(b)
			pw.WriteByte('\n')
			pw.Flush()
		}
		res := dh.RunPlans([]*dh.Plan{&p})
		if res.Panic != "" {
			res.Events = append(res.Events, dh.Event{Ev: "panic", G: p.G, K: res.Panic, Tags: [][]string{}, Order: []string{}, Tasks: []string{}})
			stats["panic"]++
		}
		if res.Hang {
			res.Events = append(res.Events, dh.Event{Ev: "hang", G: p.G, Tags: [][]string{}, Order: []string{}, Tasks: []string{}})
			hangs++
		}
		writeEvents(w, res.Events)
		cases++
		_, nt := summarize(res.Events)
		key, _ := json.Marshal(p.History)
		k2 := fmt.Sprintf("%s|%v|%d|%v", key, p.Outcomes, p.Limit, p.Serial)
		if nt && !seen[k2] {
			nontrivial++
		}
		seen[k2] = true
	}
	w.Flush()
	f.Close()
	fmt.Printf("rand cases=%d nontrivial=%d hangs=%d\n", cases, nontrivial, hangs)
	b, _ := json.Marshal(stats)
	fmt.Printf("STATS %s\n", b)
}

// two -n N -seed S -out PREFIX: two graphs sharing Task objects run concurrently; one trace per graph
// (the other graph's lock / unlock of a shared Task appear as environment events).
func cmdTwo(args []string) {
	fs := flag.NewFlagSet("two", flag.ExitOnError)
	n := fs.Int("n", 50, "runs")
	seed := fs.Int64("seed", 1, "seed")
	maxv := fs.Int("maxv", 3, "max vertices")
	out := fs.String("out", "", "trace file")
	runBase := fs.Int("runbase", 0, "first run number")
	fs.Parse(args)
	r := rand.New(rand.NewSource(*seed))
	f, err := os.Create(*out)
	if err != nil {
		die("%v", err)
	}
	w := bufio.NewWriterSize(f, 1<<20)
	cases, nontrivial := 0, 0
	overlap := 0
	for i := 0; i < *n; i++ {
		p1 := dh.GenPlan(r, *maxv, 0)
		p2 := dh.GenPlan(r, *maxv, 0)
		p1.Run, p2.Run = *runBase+2*i+1, *runBase+2*i+2
		p1.G, p2.G = fmt.Sprintf("g1_%d", p1.Run), fmt.Sprintf("g2_%d", p2.Run)
		p1.CancelAt, p2.CancelAt = -1, -1
		// the two graphs must share the very same Task objects: no per-graph TaskMap here
		for _, q := range []*dh.Plan{&p1, &p2} {
			q.UseTM = false
			h := []dh.Op{}
			for _, o := range q.History {
				if o.Op != "tmadd" && o.Op != "tmgetbad" {
					h = append(h, o)
				}
			}
			q.History = h
			// sometimes the graph first learns an ID through a Task value of its own and is then given the shared one
			if r.Intn(2) == 0 && len(q.Tasks) > 0 {
				id := q.Tasks[r.Intn(len(q.Tasks))]
				q.History = append([]dh.Op{{Op: "add", T: id, New: true}}, q.History...)
			}
		}
		res := dh.RunPlans([]*dh.Plan{&p1, &p2})
		// direct observation: the same Task is never inside its function in both graphs at once
		inside := map[string]string{}
		for _, e := range res.Events {
			if e.Ev == "enter" {
				if g, ok := inside[e.ID]; ok && g != e.G {
					overlap++
				}
				inside[e.ID] = e.G
			}
			if e.Ev == "exit" {
				delete(inside, e.ID)
			}
		}
		for _, g := range []string{p1.G, p2.G} {
			proj := []dh.Event{}
			for _, e := range res.Events {
				if e.G == g {
					proj = append(proj, e)
				} else if e.Ev == "locked" {
					e2 := e
					e2.Ev, e2.G = "envlock", g
					proj = append(proj, e2)
				} else if e.Ev == "unlocking" {
					e2 := e
					e2.Ev, e2.G = "envunlock", g
					proj = append(proj, e2)
				}
			}
			if res.Hang {
				proj = append(proj, dh.Event{Ev: "hang", G: g, Tags: [][]string{}, Order: []string{}, Tasks: []string{}})
			}
			writeEvents(w, proj)
			cases++
			if _, nt := summarize(proj); nt {
				nontrivial++
			}
		}
	}
	w.Flush()
	f.Close()
	fmt.Printf("two cases=%d nontrivial=%d overlap=%d\n", cases, nontrivial, overlap)
	b, _ := json.Marshal(stats)
	fmt.Printf("STATS %s\n", b)
}

// rerun -in PLAN.json -out TRACE [-times N]: execute a recorded plan again (the schedule is seeded).
func cmdRerun(args []string) {
	fs := flag.NewFlagSet("rerun", flag.ExitOnError)
	in := fs.String("in", "", "replay file")
	out := fs.String("out", "", "trace file")
	times := fs.Int("times", 1, "repetitions with successive schedule seeds")
	fs.Parse(args)
	b, err := os.ReadFile(*in)
	if err != nil {
		die("%v", err)
	}
	var rec struct {
		Plan dh.Plan `json:"plan"`
	}
	if err := json.Unmarshal(b, &rec); err != nil {
		die("bad replay: %v", err)
	}
	f, err := os.Create(*out)
	if err != nil {
		die("%v", err)
	}
	w := bufio.NewWriter(f)
	for i := 0; i < *times; i++ {
		p := rec.Plan
		p.Seed += int64(i)
		p.Run = i + 1
		p.G = fmt.Sprintf("r%d", i+1)
		res := dh.RunPlans([]*dh.Plan{&p})
		if res.Hang {
			res.Events = append(res.Events, dh.Event{Ev: "hang", G: p.G, Tags: [][]string{}, Order: []string{}, Tasks: []string{}})
		}
		writeEvents(w, res.Events)
	}
	w.Flush()
	f.Close()
	fmt.Printf("rerun cases=%d\n", *times)
}

// race -n N -seed S: hook-free runs for the race detector (build with -race). Tasks read what their
// dependencies wrote and, in serial mode, all tasks update one shared counter, with plain memory accesses:
// any missing happens-before edge in Graph.Run is reported by the race detector (exit status 66).
func cmdRace(args []string) {
	fs := flag.NewFlagSet("race", flag.ExitOnError)
	n := fs.Int("n", 200, "runs")
	seed := fs.Int64("seed", 1, "seed")
	maxv := fs.Int("maxv", 6, "max vertices")
	fs.Parse(args)
	r := rand.New(rand.NewSource(*seed))
	dag.Logger = log.New(io.Discard, "", 0)
	bad := 0
	for i := 0; i < *n; i++ {
		p := dh.GenPlan(r, *maxv, 0)
		data := map[string]*int{}
		counter := 0
		deps := map[string][]string{}
		for _, id := range dh.Universe {
			v := 0
			data[id] = &v
		}
		for _, o := range p.History {
			if o.Op == "dep" {
				if len(o.Ds) > 0 {
					deps[o.T] = append(deps[o.T], o.Ds...)
				} else {
					deps[o.T] = append(deps[o.T], o.D)
				}
			}
		}
		var mu sync.Mutex
		att := map[string]int{}
		tasks := map[string]*dag.Task{}
		for _, id := range dh.Universe {
			id := id
			tasks[id] = dag.NewTask(id, func(ctx context.Context, opt *getoptions.GetOpt, args []string) error {
				sum := 0
				for _, d := range deps[id] {
					sum += *data[d] // plain read of what the dependency wrote
				}
				if p.Serial {
					counter++ // plain read-modify-write, only legal if executions are ordered
				}
				mu.Lock()
				att[id]++
				k := att[id]
				mu.Unlock()
				if p.Buf {
					fmt.Fprintf(dag.Stdout(ctx), "%s:%d;", id, k) // private per-attempt buffer, flushed by Run under its own mutex
				}
				time.Sleep(time.Duration(r0(k)) * time.Microsecond)
				*data[id] = sum + 1 // plain write before returning
				o := "nil"
				if k-1 < len(p.Outcomes[id]) {
					o = p.Outcomes[id][k-1]
				}
				if o == "err" {
					return fmt.Errorf("x")
				}
				if o == "skipparents" {
					return dag.ErrorSkipParents
				}
				return nil
			})
		}
		g := dag.NewGraph("r")
		g.TickerDuration = 50 * time.Microsecond
		serialFirst := p.Serial && (p.Seed/7)%2 == 0
		if serialFirst {
			g.SetSerial()
		}
		if p.Limit > 0 {
			g.SetMaxParallel(p.Limit)
		}
		if p.Serial && !serialFirst {
			g.SetSerial()
		}
		var sink bytes.Buffer // NOT safe for concurrent use: only Run's buffer mutex keeps the flushes apart
		if p.Buf {
			g.SetOutputBuffer(&sink)
		}
		for _, o := range p.History {
			switch o.Op {
			case "add":
				g.AddTask(tasks[o.T])
			case "dep":
				if len(o.Ds) > 0 {
					for _, d := range o.Ds {
						g.TaskDependsOn(tasks[o.T], tasks[d])
					}
				} else {
					g.TaskDependsOn(tasks[o.T], tasks[o.D])
				}
			case "retries":
				g.TaskRetries(tasks[o.T], o.R)
			}
		}
		done := make(chan struct{})
		go func() { g.Run(context.Background(), nil, nil); close(done) }()
		select {
		case <-done:
		case <-time.After(20 * time.Second):
			bad++
		}
	}
	fmt.Printf("race cases=%d hangs=%d\n", *n, bad)
	if bad > 0 {
		os.Exit(3)
	}
}

func r0(k int) int { return (k * 37) % 50 }

// exhaust -v N -outs nil,skipparents -orders K -shard k -of n -out FILE: every DAG on N vertices (edges from
// later to earlier vertices) x every assignment of the given outcomes to the vertices x K edge declaration
// orders (forward, reverse, shuffled...), each run once under a seeded schedule.
func cmdExhaust(args []string) {
	fs := flag.NewFlagSet("exhaust", flag.ExitOnError)
	nv := fs.Int("v", 3, "vertices")
	outs := fs.String("outs", "nil,err,skipparents", "outcome alphabet")
	orders := fs.Int("orders", 3, "edge declaration orders per graph")
	shard := fs.Int("shard", 0, "shard")
	of := fs.Int("of", 1, "shards")
	seed := fs.Int64("seed", 1, "seed")
	limit := fs.Int("limit", 0, "SetMaxParallel (0: default)")
	serial := fs.Bool("serial", false, "serial mode")
	readd := fs.Bool("readd", false, "after the edges, define every task again with a fresh Task value of the same ID")
	out := fs.String("out", "", "trace file")
	plansOut := fs.String("plans", "", "also write the plans (for replay)")
	runBase := fs.Int("runbase", 0, "first run number")
	fs.Parse(args)
	alphabet := splitComma(*outs)
	r := rand.New(rand.NewSource(*seed))
	f, err := os.Create(*out)
	if err != nil {
		die("%v", err)
	}
	w := bufio.NewWriterSize(f, 1<<20)
	var pw *bufio.Writer
	if *plansOut != "" {
		pf, err := os.Create(*plansOut)
		if err != nil {
			die("%v", err)
		}
		defer pf.Close()
		pw = bufio.NewWriter(pf)
		defer pw.Flush()
	}
	ids := dh.Universe[:*nv]
	type edge struct{ t, d int }
	all := []edge{}
	for i := 0; i < *nv; i++ {
		for j := 0; j < i; j++ {
			all = append(all, edge{i, j})
		}
	}
	cases, nontrivial, run := 0, 0, 0
	nOut := 1
	for i := 0; i < *nv; i++ {
		nOut *= len(alphabet)
	}
	for mask := 0; mask < 1<<len(all); mask++ {
		es := []edge{}
		for k, e := range all {
			if mask&(1<<k) != 0 {
				es = append(es, e)
			}
		}
		for oc := 0; oc < nOut; oc++ {
			for ord := 0; ord < *orders; ord++ {
				run++
				if run%*of != *shard {
					continue
				}
				p := dh.Plan{Run: *runBase + run, G: fmt.Sprintf("x%d", *runBase+run), Tasks: append([]string{}, ids...), Limit: *limit, Serial: *serial,
					Outcomes: map[string][]string{}, CancelAt: -1, Seed: r.Int63(), Sticky: []float64{0, 0.5, 0.9}[r.Intn(3)]}
				x := oc
				for i := 0; i < *nv; i++ {
					p.Outcomes[ids[i]] = []string{alphabet[x%len(alphabet)]}
					x /= len(alphabet)
				}
				seq := append([]edge{}, es...)
				switch ord {
				case 0:
				case 1:
					for a, b := 0, len(seq)-1; a < b; a, b = a+1, b-1 {
						seq[a], seq[b] = seq[b], seq[a]
					}
				default:
					r.Shuffle(len(seq), func(a, b int) { seq[a], seq[b] = seq[b], seq[a] })
				}
				for _, id := range ids {
					p.History = append(p.History, dh.Op{Op: "add", T: id})
				}
				for _, e := range seq {
					p.History = append(p.History, dh.Op{Op: "dep", T: ids[e.t], D: ids[e.d]})
				}
				if *readd {
					for _, id := range ids {
						p.History = append(p.History, dh.Op{Op: "add", T: id, New: true})
					}
				}
				if pw != nil {
					b, _ := json.Marshal(&p)
					pw.Write(b)
					pw.WriteByte('\n')
					pw.Flush()
				}
				res := dh.RunPlans([]*dh.Plan{&p})
				if res.Hang {
					res.Events = append(res.Events, dh.Event{Ev: "hang", G: p.G, Tags: [][]string{}, Order: []string{}, Tasks: []string{}})
				}
				writeEvents(w, res.Events)
				cases++
				if _, nt := summarize(res.Events); nt {
					nontrivial++
				}
			}
		}
	}
	w.Flush()
	f.Close()
	fmt.Printf("exhaust cases=%d nontrivial=%d\n", cases, nontrivial)
	b, _ := json.Marshal(stats)
	fmt.Printf("STATS %s\n", b)
}

func splitComma(s string) []string {
	out := []string{}
	cur := ""
	for _, ch := range s {
		if ch == ',' {
			out = append(out, cur)
			cur = ""
		} else {
			cur += string(ch)
		}
	}
	return append(out, cur)
}

// follow -in BEHAVIOURS.ndjson -out TRACE [-plans FILE]: replay behaviours of the specification (printed by
// DagSim under tlc -simulate) on the real code: graph, limits, outcomes and cancellation point are taken from
// the behaviour, and the controller releases goroutines in the order of the behaviour's actions.
func cmdFollow(args []string) {
	fs := flag.NewFlagSet("follow", flag.ExitOnError)
	in := fs.String("in", "", "behaviour file (one JSON object per line)")
	out := fs.String("out", "", "trace file")
	plansOut := fs.String("plans", "", "also write the plans")
	runBase := fs.Int("runbase", 0, "first run number")
	seed := fs.Int64("seed", 1, "seed for the steps after the behaviour ends or is left")
	fs.Parse(args)
	inf, err := os.Open(*in)
	if err != nil {
		die("%v", err)
	}
	defer inf.Close()
	f, err := os.Create(*out)
	if err != nil {
		die("%v", err)
	}
	w := bufio.NewWriterSize(f, 1<<20)
	var pw *bufio.Writer
	if *plansOut != "" {
		pf, err := os.Create(*plansOut)
		if err != nil {
			die("%v", err)
		}
		defer pf.Close()
		pw = bufio.NewWriter(pf)
		defer pw.Flush()
	}
	sc := bufio.NewScanner(inf)
	sc.Buffer(make([]byte, 1<<20), 1<<26)
	r := rand.New(rand.NewSource(*seed))
	cases, nontrivial, full, steps, followed := 0, 0, 0, 0, 0
	for sc.Scan() {
		var b struct {
			Deps    [][]int         `json:"deps"`
			Retries []int           `json:"retries"`
			Limit   int             `json:"limit"`
			Serial  bool            `json:"serial"`
			Trail   [][]interface{} `json:"trail"`
		}
		if err := json.Unmarshal(sc.Bytes(), &b); err != nil {
			die("bad behaviour: %v", err)
		}
		cases++
		n := len(b.Deps)
		ids := dh.Universe[:n]
		p := dh.Plan{Run: *runBase + cases, G: fmt.Sprintf("f%d", *runBase+cases), Tasks: append([]string{}, ids...), Limit: b.Limit, Serial: b.Serial,
			Outcomes: map[string][]string{}, CancelAt: -1, Seed: r.Int63()}
		for i := 0; i < n; i++ {
			p.History = append(p.History, dh.Op{Op: "add", T: ids[i]})
		}
		for i := 0; i < n; i++ {
			for _, d := range b.Deps[i] {
				p.History = append(p.History, dh.Op{Op: "dep", T: ids[i], D: ids[d-1]})
			}
			if b.Retries[i] > 0 {
				p.History = append(p.History, dh.Op{Op: "retries", T: ids[i], R: b.Retries[i]})
			}
		}
		for _, st := range b.Trail {
			a, _ := st[0].(string)
			vi, _ := st[1].(float64)
			k, _ := st[2].(string)
			v := ""
			if vi >= 1 {
				v = ids[int(vi)-1]
			}
			p.Trail = append(p.Trail, dh.TrailStep{A: a, V: v, K: k})
			if a == "exit" {
				p.Outcomes[v] = append(p.Outcomes[v], k)
			}
		}
		res := dh.RunPlans([]*dh.Plan{&p})
		if pw != nil {
			q := p
			q.Trail = nil
			bb, _ := json.Marshal(&q)
			pw.Write(bb)
			pw.WriteByte('\n')
		}
		if res.Hang {
			res.Events = append(res.Events, dh.Event{Ev: "hang", G: p.G, Tags: [][]string{}, Order: []string{}, Tasks: []string{}})
		}
		writeEvents(w, res.Events)
		if _, nt := summarize(res.Events); nt {
			nontrivial++
		}
		steps += len(p.Trail)
		followed += p.Followed
		if p.Followed == len(p.Trail) {
			full++
		}
	}
	w.Flush()
	f.Close()
	stats["behaviours-followed-to-the-end"] = full
	stats["behaviour-steps"] = steps
	stats["behaviour-steps-followed"] = followed
	fmt.Printf("follow cases=%d nontrivial=%d\n", cases, nontrivial)
	bb, _ := json.Marshal(stats)
	fmt.Printf("STATS %s\n", bb)
}
