package gh

import (
	"bytes"
	"crypto/sha256"
	"encoding/hex"
	"encoding/json"
	"errors"
	"fmt"
	"os"
	"os/exec"
	"reflect"
	"regexp"
	"sort"
	"strings"
	"time"

	"github.com/DavidGamba/go-getoptions"
)

var (
	reAmbiguous = regexp.MustCompile(`(?s)^Ambiguous option '(.*)', matches \[(.*)\]!$`)
	reDashArg   = regexp.MustCompile(`(?s)^Missing argument for option '(.*)'!\nIf passing arguments that start with '-' use --option=-argument$`)
	reMissing   = regexp.MustCompile(`(?s)^Missing argument for option '(.*)'!$`)
	reConvInt   = regexp.MustCompile(`(?s)^Argument error for option '(.*?)': Can't convert string to int: '(.*)'$`)
	reConvFloat = regexp.MustCompile(`(?s)^Argument error for option '(.*?)': Can't convert string to float64: '(.*)'$`)
	reKeyValue  = regexp.MustCompile(`(?s)^Argument error for option '(.*)': Should be of type 'key=value'!$`)
	reValid     = regexp.MustCompile(`(?s)^wrong value for option '(.*?)', valid values are (.*)$`)
	reRequired  = regexp.MustCompile(`(?s)^Missing required parameter '(.*)'$`)
	reUnknown   = regexp.MustCompile(`(?s)^Unknown option '(.*)'$`)
	reNoFn      = regexp.MustCompile(`(?s)^command '(.*)' has no defined CommandFn$`)
	reNoTopic   = regexp.MustCompile(`(?s)^no help topic for '(.*)'$`)
)

func emptyErr() ErrRes {
	return ErrRes{Name: Tok{}, Tok: Tok{}, Cands: []Tok{}, ReqName: Tok{}, Msg: Tok{}}
}

// ClassifyErr - normal form of an error returned by Parse or Dispatch.
func ClassifyErr(err error) ErrRes {
	e := emptyErr()
	if err == nil {
		return e
	}
	msg := err.Error()
	e.Msg = ToAtoms(msg)
	e.IsParsing = errors.Is(err, getoptions.ErrorParsing)
	e.IsHelp = errors.Is(err, getoptions.ErrorHelpCalled)
	switch {
	case reAmbiguous.MatchString(msg):
		m := reAmbiguous.FindStringSubmatch(msg)
		e.Kind = "ambiguous"
		e.Tok = ToAtoms(m[1])
		if m[2] != "" {
			e.Cands = ToksOf(strings.Split(m[2], " "))
		}
	case reDashArg.MatchString(msg):
		e.Kind = "dasharg"
		e.Name = ToAtoms(reDashArg.FindStringSubmatch(msg)[1])
	case reMissing.MatchString(msg):
		e.Kind = "missing"
		e.Name = ToAtoms(reMissing.FindStringSubmatch(msg)[1])
	case reConvInt.MatchString(msg):
		m := reConvInt.FindStringSubmatch(msg)
		e.Kind = "conv"
		e.Name = ToAtoms(m[1])
		e.Tok = ToAtoms(m[2])
	case reConvFloat.MatchString(msg):
		m := reConvFloat.FindStringSubmatch(msg)
		e.Kind = "conv"
		e.Name = ToAtoms(m[1])
		e.Tok = ToAtoms(m[2])
	case reKeyValue.MatchString(msg):
		e.Kind = "keyvalue"
		e.Name = ToAtoms(reKeyValue.FindStringSubmatch(msg)[1])
	case reValid.MatchString(msg):
		e.Kind = "valid"
		e.Name = ToAtoms(reValid.FindStringSubmatch(msg)[1])
	case reUnknown.MatchString(msg):
		e.Kind = "unknown"
		e.Name = ToAtoms(reUnknown.FindStringSubmatch(msg)[1])
	case e.IsParsing:
		e.Kind = "required"
		if m := reRequired.FindStringSubmatch(msg); m != nil {
			e.ReqName = ToAtoms(m[1])
		} else {
			e.ReqCustom = true
		}
	case e.IsHelp:
		e.Kind = "help"
	case reNoFn.MatchString(msg):
		e.Kind = "nofn"
	case reNoTopic.MatchString(msg):
		e.Kind = "notopic"
	default:
		e.Kind = "other"
	}
	return e
}

const warnPrefix = "WARNING: Unknown option '"

// splitWriter - Writer content = warnings, then optionally other text (help).
func splitWriter(w string) (warn []Tok, rest string) {
	warn = []Tok{}
	for strings.HasPrefix(w, warnPrefix) {
		body := w[len(warnPrefix):]
		end := strings.Index(body, "'\n")
		if end < 0 {
			break
		}
		warn = append(warn, ToAtoms(body[:end]))
		w = body[end+2:]
	}
	return warn, w
}

// nodePath - "prog cmd sub" as printed by the help for node n.
func (c *Cfg) nodePath(n int) string {
	nd := c.Nodes[n-1]
	if nd.Parent == 0 {
		return FromAtoms(c.Prog)
	}
	return c.nodePath(nd.Parent) + " " + FromAtoms(nd.Name)
}

// helpNode - which node's help is this text? 0 if it is not a help text.
func (c *Cfg) helpNode(txt string) int {
	const hdr = "SYNOPSIS:\n    "
	i := strings.Index(txt, hdr)
	if i < 0 {
		return 0
	}
	line := txt[i+len(hdr):]
	best, bestLen := 0, -1
	for n := range c.Nodes {
		p := c.nodePath(n + 1)
		if (strings.HasPrefix(line, p+" ") || strings.HasPrefix(line, p+"\n")) && len(p) > bestLen {
			best, bestLen = n+1, len(p)
		}
	}
	return best
}

// CaseTimeout - watchdog per case.
var CaseTimeout = 10 * time.Second

// Repeat - number of additional executions of every case whose full observable output must be identical.
var Repeat = 0

// RunCase - run one case against the real library and return the observable outcome in normal form.
func RunCase(d *Def, c *Case) Res {
	r := runCaseWatched(d, c)
	h := sha256.Sum256([]byte(r.Raw))
	r.RawHash = hex.EncodeToString(h[:8])
	for i := 0; i < Repeat && !r.Hang; i++ {
		r2 := runCaseWatched(d, c)
		if r2.Raw != r.Raw {
			r.NonDet = true
		}
	}
	return r
}

func runCaseWatched(d *Def, c *Case) Res {
	ch := make(chan Res, 1)
	go func() {
		if c.Comp == "help" {
			ch <- RunHelpCase(d, c.HN)
		} else {
			ch <- runCase(d, c)
		}
	}()
	select {
	case r := <-ch:
		return r
	case <-time.After(CaseTimeout):
		r := emptyRes(&d.Cfg)
		r.Hang = true
		return r
	}
}

func emptyRes(cfg *Cfg) Res {
	r := Res{Err: emptyErr(), DReq: emptyErr(), Rest: []Tok{}, RestNil: true, Warn: []Tok{}, Ran: []RanRes{}, Comps: []Tok{}, Exits: []int{}, Help: emptyDoc(), SetErrs: []string{}}
	r.Vals = make([]interface{}, len(cfg.Opts))
	r.Called = make([]bool, len(cfg.Opts))
	r.As = make([]Tok, len(cfg.Opts))
	r.Agree = make([]bool, len(cfg.Opts))
	for i := range r.As {
		r.As[i] = Tok{}
		r.Vals[i] = "unset"
	}
	return r
}

// CompSetup - installs the environment of a completion request (COMP_LINE, ZSHELL) and answers the arguments the shell
// hands to the program.
func CompSetup(cfg *Cfg, c *Case) []string {
	args := StringsOf(c.Argv)
	os.Setenv("COMP_LINE", strings.Join(args, " "))
	if c.Comp == "zsh" {
		os.Setenv("ZSHELL", "true")
	} else {
		os.Unsetenv("ZSHELL")
	}
	cur, prev := "", ""
	if len(args) > 0 {
		cur = args[len(args)-1]
	}
	if len(args) > 1 {
		prev = args[len(args)-2]
	}
	args = []string{FromAtoms(cfg.Prog), cur, prev}
	if c.UseRaw {
		os.Setenv("COMP_LINE", c.RawLine)
		args = append([]string{}, c.RawArgs...)
	}
	return args
}

// RealExit - sample completion requests are also executed in a child process (the driver itself, sub-command compchild)
var RealExit = true

// RealCompletion - runs the completion request in a child process that does not replace the library's exit function
// and completion writer; answers the exit status and what the child printed on its standard output.
func RealCompletion(d *Def, c *Case) (int, string) {
	exe, err := os.Executable()
	if err != nil {
		return -1, "no executable: " + err.Error()
	}
	// raw COMP_LINE texts may hold bytes that are not valid UTF-8 (JSON would replace them): they travel as hex
	rawArgs := []string{}
	for _, a := range c.RawArgs {
		rawArgs = append(rawArgs, hex.EncodeToString([]byte(a)))
	}
	in, _ := json.Marshal(struct {
		Def     *Def     `json:"def"`
		Case    *Case    `json:"case"`
		RawLine string   `json:"rawlinehex"`
		RawArgs []string `json:"rawargshex"`
	}{d, c, hex.EncodeToString([]byte(c.RawLine)), rawArgs})
	cmd := exec.Command(exe, "compchild")
	cmd.Stdin = bytes.NewReader(in)
	var out bytes.Buffer
	cmd.Stdout = &out
	err = cmd.Run()
	code := 0
	if ee, ok := err.(*exec.ExitError); ok {
		code = ee.ExitCode()
	} else if err != nil {
		return -1, "child not started: " + err.Error()
	}
	return code, out.String()
}

// CompChild - the child side: the definition and the request come on standard input; Parse must not return.
func CompChild() {
	var in struct {
		Def     Def      `json:"def"`
		Case    Case     `json:"case"`
		RawLine string   `json:"rawlinehex"`
		RawArgs []string `json:"rawargshex"`
	}
	if err := json.NewDecoder(os.Stdin).Decode(&in); err != nil {
		fmt.Fprintln(os.Stderr, "compchild:", err)
		os.Exit(9)
	}
	if b, err := hex.DecodeString(in.RawLine); err == nil {
		in.Case.RawLine = string(b)
	}
	in.Case.RawArgs = []string{}
	for _, a := range in.RawArgs {
		b, _ := hex.DecodeString(a)
		in.Case.RawArgs = append(in.Case.RawArgs, string(b))
	}
	b := Build(&in.Def.Cfg)
	args := CompSetup(&in.Def.Cfg, &in.Case)
	b.Root.Parse(args)
	// not reached when the library leaves through its exit path
	if len(b.Ran) > 0 {
		os.Exit(8)
	}
	os.Exit(7)
}

func runCase(d *Def, c *Case) (res Res) {
	cfg := &d.Cfg
	res = emptyRes(cfg)
	var b *Built
	var w, cw bytes.Buffer
	raw := &strings.Builder{}
	defer func() {
		if r := recover(); r != nil {
			res.Panic = fmt.Sprint(r)
			if res.Panic == "" {
				res.Panic = "panic"
			}
		}
		if b != nil {
			b.Cleanup()
		}
		getoptions.Writer = os.Stderr
		res.Raw = raw.String()
	}()
	getoptions.Writer = &w
	getoptions.VerifSetCompletionWriter(&cw)
	getoptions.VerifSetExitFn(func(code int) { res.Exits = append(res.Exits, code) })
	// what the program did earlier with the same object: a Parse of other arguments, the Dispatch that follows it, and
	// a look at the help of every command declared so far
	earlier := func(b *Built) {
		rest, err := b.Root.Parse(StringsOf(c.Pre))
		if c.Disp && err == nil {
			b.Root.Dispatch(b.Ctx(), rest)
		}
		for _, g := range b.GOpts {
			if g != nil {
				g.Help()
			}
		}
		b.Ran = nil
		w.Reset()
	}
	early := c.HasPre && c.PreEarly && c.Comp == "" && (cfg.HelpOpt() != 0 || cfg.OptsLate)
	if early {
		b = BuildWith(cfg, earlier)
	} else {
		b = Build(cfg)
	}
	args := StringsOf(c.Argv)
	if c.Comp != "" {
		args = CompSetup(cfg, c)
	}
	if c.HasPre && c.Comp == "" && !early {
		earlier(b)
	}
	rest, err := b.Root.Parse(args)
	if c.Comp != "" {
		out := cw.String()
		fmt.Fprintf(raw, "comp=%q exits=%v rest=%#v err=%v writer=%q", out, res.Exits, rest, err, w.String())
		res.CompNil = out == ""
		out = strings.TrimSuffix(out, "\n")
		if out != "" {
			lines := strings.Split(out, "\n")
			res.Comps = ToksOf(lines)
			res.Sorted = sort.StringsAreSorted(lines)
		} else {
			res.Sorted = true
		}
		res.RestNil = rest == nil
		res.Rest = ToksOf(rest)
		res.Err = ClassifyErr(err)
		res.Ran = append([]RanRes{}, b.Ran...)
		if c.ID%29 == 0 && RealExit {
			// the same request in a process of its own, with the library's own exit function and writer: the process must
			// end with status 124 after printing exactly this list
			code, realOut := RealCompletion(d, c)
			fmt.Fprintf(raw, " real=%d,%q", code, realOut)
			if code != 124 || realOut != cw.String() {
				res.Exits = append(res.Exits, -1000-code)
			}
		}
		ww, other := splitWriter(w.String())
		res.Warn = ww
		res.WOther = other != ""
		b.observeOpts(&res, raw)
		return res
	}
	res.Err = ClassifyErr(err)
	res.RestNil = rest == nil
	res.Rest = ToksOf(rest)
	// the caller reuses its argument buffer: what Parse returned must not change with it
	for i := range args {
		args[i] = "overwritten by the caller"
	}
	for i, t := range res.Rest {
		if i < len(rest) && FromAtoms(t) != rest[i] {
			res.Aliased = true
		}
	}
	rest = StringsOf(res.Rest)
	fmt.Fprintf(raw, "rest=%#v err=%v aliased=%v|", rest, err, res.Aliased)
	b.observeOpts(&res, raw)
	parseW := w.String()
	warn, other := splitWriter(parseW)
	res.Warn = warn
	res.WOther = other != ""
	fmt.Fprintf(raw, "writer=%q|", parseW)
	if c.Disp && err == nil {
		w.Reset()
		derr := b.Root.Dispatch(b.Ctx(), rest)
		de := ClassifyErr(derr)
		switch de.Kind {
		case "", "help", "nofn", "notopic":
			res.DErr = de.Kind
		case "required":
			res.DErr = "required"
			res.DReq = de
		default:
			res.DErr = "other:" + de.Kind
		}
		res.Ran = append([]RanRes{}, b.Ran...)
		res.HelpTxt = w.String()
		res.HelpOf = cfg.helpNode(res.HelpTxt)
		if res.HelpOf == 0 && res.HelpTxt != "" {
			res.WOther = true
		}
		fmt.Fprintf(raw, "derr=%v dwriter=%q ran=%v|", derr, res.HelpTxt, res.Ran)
	} else if c.Disp && err != nil && !c.HasPre {
		// what programs do after a failed Parse: print the synopsis of where the parser got to (the documented pattern),
		// or - carelessly - go on to Dispatch.  Neither may panic (C19) and both are repeatable (C20); what they print
		// is not compared with anything else.
		w.Reset()
		syn := b.Root.Help(getoptions.HelpSynopsis)
		derr := b.Root.Dispatch(b.Ctx(), nil)
		fmt.Fprintf(raw, "afterfail synopsis=%q derr=%v dwriter=%q|", syn, derr, w.String())
	} else if !c.Disp && err == nil {
		// a program without Dispatch fetches its arguments from the object it parsed with: with none left it is told
		// which one is missing (or that one is) and shown a synopsis.  No panic (C19), repeatable (C20).
		w.Reset()
		_, _, e1 := b.Root.GetRequiredArg(nil)
		_, _, e2 := b.Root.GetRequiredArgInt(nil)
		fmt.Fprintf(raw, "rootarg err=%v,%v writer=%q|", e1, e2, w.String())
	}
	return res
}

func shapeMatches(kind string, v interface{}) bool {
	switch kind {
	case "bool":
		_, ok := v.(bool)
		return ok
	case "incr":
		_, ok := v.(int)
		return ok
	case "string", "sopt":
		_, ok := v.(Tok)
		return ok
	case "int", "iopt", "float", "fopt":
		s, ok := v.(string)
		return ok && s != "nil"
	case "sslice":
		_, ok := v.([]Tok)
		return ok
	case "islice", "fslice":
		_, ok := v.([]string)
		return ok
	case "smap":
		_, ok := v.([][]Tok)
		return ok
	}
	return false
}

func zeroShape(kind string) interface{} {
	switch kind {
	case "bool":
		return false
	case "incr":
		return 0
	case "string", "sopt":
		return Tok{}
	case "int", "iopt", "float", "fopt":
		return "0"
	case "sslice":
		return []Tok{}
	case "islice", "fslice":
		return []string{}
	}
	return [][]Tok{}
}

// sameValue - equality of option values (NaN equals NaN: floats are compared by bit pattern).
func sameValue(kind string, a, b interface{}) bool {
	return reflect.DeepEqual(NormVal(kind, a), NormVal(kind, b))
}

func (b *Built) observeOpts(res *Res, raw *strings.Builder) {
	cfg := b.Cfg
	res.SetErrs = append([]string{}, b.SetErrs...)
	fmt.Fprintf(raw, "seterrs=%q|", res.SetErrs)
	for i, o := range cfg.Opts {
		v := b.PtrValue(i)
		res.Vals[i] = NormVal(o.Kind, v)
		shapeOK := true
		if !shapeMatches(o.Kind, res.Vals[i]) {
			// the library handed back something that is not a value of the option's type (e.g. nil): keep the trace
			// well-typed for TLC and flag the case through the agreement observable
			res.Vals[i] = zeroShape(o.Kind)
			shapeOK = false
		}
		g := b.GOpts[o.Node-1]
		name := FromAtoms(o.Name)
		res.Called[i] = g.Called(name)
		res.As[i] = ToAtoms(g.CalledAs(name))
		// pointer / *Var target, Value(name) and Value(alias) agree; Called/CalledAs agree across names
		agree := sameValue(o.Kind, g.Value(name), v)
		for _, a := range o.Aliases {
			s := FromAtoms(a)
			if !sameValue(o.Kind, g.Value(s), v) || g.Called(s) != res.Called[i] || g.CalledAs(s) != g.CalledAs(name) {
				agree = false
			}
		}
		res.Agree[i] = agree && shapeOK
		fmt.Fprintf(raw, "%d:%#v,%v,%q|", i, v, res.Called[i], g.CalledAs(name))
	}
}
