package gh

import (
	"bytes"
	"fmt"
	"os"
	"sort"
	"strings"

	"github.com/DavidGamba/go-getoptions"
)

// HelpEntry - one entry of the REQUIRED PARAMETERS / OPTIONS lists as printed.
type HelpEntry struct {
	Head   Tok  `json:"head"`   // the synopsis part: aliases joined with |, argument name, dots
	Desc   Tok  `json:"desc"`   // description with all white space removed
	HasDef bool `json:"hasdef"` // "(default: ...)" present
	Def    Tok  `json:"def"`
	HasEnv bool `json:"hasenv"`
	Env    Tok  `json:"env"`
}

// HelpDoc - the structure of a help text.
type HelpDoc struct {
	OK       bool        `json:"ok"`   // the text has the expected overall shape
	Name     Tok         `json:"name"` // NAME section body ("" if absent), white space collapsed
	Synopsis Tok         `json:"synopsis"`
	Cmds     [][]Tok     `json:"cmds"` // [name, description-without-white-space]
	Args     []Tok       `json:"args"`
	Required []HelpEntry `json:"required"`
	Options  []HelpEntry `json:"options"`
	Footer   bool        `json:"footer"`
	Three    bool        `json:"three"` // help option, help command and Help() give the same text
	Paths    int         `json:"paths"` // how many of the three paths were available
}

func collapse(s string) string { return strings.Join(strings.Fields(s), " ") }

func stripWS(s string) string { return strings.Join(strings.Fields(s), "") }

func emptyDoc() HelpDoc {
	return HelpDoc{Name: Tok{}, Synopsis: Tok{}, Cmds: [][]Tok{}, Args: []Tok{}, Required: []HelpEntry{}, Options: []HelpEntry{}}
}

// splitSections - "HEADER:\n body" blocks in order.
func splitSections(txt string) (map[string]string, []string, string) {
	headers := []string{"NAME", "SYNOPSIS", "COMMANDS", "ARGUMENTS", "REQUIRED PARAMETERS", "OPTIONS"}
	secs := map[string]string{}
	order := []string{}
	rest := txt
	footer := ""
	// the footer is a line starting with "Use '"
	if i := strings.LastIndex(rest, "Use '"); i >= 0 && (i == 0 || rest[i-1] == '\n') {
		footer = rest[i:]
		rest = rest[:i]
	}
	type pos struct {
		h string
		i int
	}
	ps := []pos{}
	for _, h := range headers {
		key := h + ":\n"
		from := 0
		for {
			i := strings.Index(rest[from:], key)
			if i < 0 {
				break
			}
			i += from
			if i == 0 || rest[i-1] == '\n' {
				ps = append(ps, pos{h, i})
				break
			}
			from = i + 1
		}
	}
	sort.Slice(ps, func(a, b int) bool { return ps[a].i < ps[b].i })
	for k, p := range ps {
		end := len(rest)
		if k+1 < len(ps) {
			end = ps[k+1].i
		}
		secs[p.h] = rest[p.i+len(p.h)+2 : end]
		order = append(order, p.h)
	}
	return secs, order, footer
}

func parseEntries(body string, required bool) []HelpEntry {
	out := []HelpEntry{}
	for _, chunk := range strings.Split(body, "\n\n") {
		if strings.TrimSpace(chunk) == "" {
			continue
		}
		e := HelpEntry{Head: Tok{}, Desc: Tok{}, Def: Tok{}, Env: Tok{}}
		line := strings.TrimPrefix(chunk, "    ")
		head := line
		tail := ""
		if i := strings.Index(line, "  "); i >= 0 {
			head, tail = line[:i], line[i:]
		} else if i := strings.Index(line, "\n"); i >= 0 {
			head, tail = line[:i], line[i:]
		}
		e.Head = ToAtoms(head)
		tail = strings.TrimRight(tail, " \n")
		if strings.HasSuffix(tail, ")") {
			if required {
				if i := strings.LastIndex(tail, "(env: "); i >= 0 {
					e.HasEnv = true
					e.Env = ToAtoms(tail[i+6 : len(tail)-1])
					tail = tail[:i]
				}
			} else if i := strings.LastIndex(tail, "(default: "); i >= 0 {
				inner := tail[i+10 : len(tail)-1]
				e.HasDef = true
				if j := strings.LastIndex(inner, ", env: "); j >= 0 {
					e.HasEnv = true
					e.Env = ToAtoms(inner[j+7:])
					inner = inner[:j]
				}
				e.Def = ToAtoms(inner)
				tail = tail[:i]
			}
		}
		e.Desc = ToAtoms(stripWS(tail))
		out = append(out, e)
	}
	return out
}

// ParseHelp - structure of a help text produced for the node whose path is `path`.
func ParseHelp(txt, path string) HelpDoc {
	d := emptyDoc()
	secs, _, footer := splitSections(txt)
	syn, ok := secs["SYNOPSIS"]
	if !ok {
		return d
	}
	d.OK = true
	if nm, ok := secs["NAME"]; ok {
		d.Name = ToAtoms(collapse(nm))
	}
	s := collapse(syn)
	if strings.HasPrefix(s, path+" ") {
		s = s[len(path)+1:]
	} else if s == path {
		s = ""
	} else {
		d.OK = false
	}
	d.Synopsis = ToAtoms(s)
	if cm, ok := secs["COMMANDS"]; ok {
		var cur []string
		flush := func() {
			if cur != nil {
				d.Cmds = append(d.Cmds, []Tok{ToAtoms(cur[0]), ToAtoms(stripWS(cur[1]))})
			}
		}
		for _, line := range strings.Split(cm, "\n") {
			if strings.TrimSpace(line) == "" {
				continue
			}
			t := strings.TrimPrefix(line, "    ")
			if !strings.HasPrefix(t, " ") { // a new command line
				flush()
				name, desc := t, ""
				if i := strings.Index(t, "    "); i >= 0 {
					name, desc = t[:i], t[i:]
				}
				cur = []string{strings.TrimSpace(name), desc}
			} else if cur != nil {
				cur[1] += t
			}
		}
		flush()
	}
	if ar, ok := secs["ARGUMENTS"]; ok {
		for _, chunk := range strings.Split(ar, "\n\n") {
			if strings.TrimSpace(chunk) != "" {
				d.Args = append(d.Args, ToAtoms(collapse(chunk)))
			}
		}
	}
	if rq, ok := secs["REQUIRED PARAMETERS"]; ok {
		d.Required = parseEntries(rq, true)
	}
	if op, ok := secs["OPTIONS"]; ok {
		d.Options = parseEntries(op, false)
	}
	d.Footer = footer != ""
	if d.Footer && collapse(footer) != "Use '"+path+" help <command>' for extra details." {
		d.OK = false
	}
	return d
}

// pathTokens - command-name tokens leading to node n.
func (c *Cfg) pathTokens(n int) []string {
	nd := c.Nodes[n-1]
	if nd.Parent == 0 {
		return []string{}
	}
	return append(c.pathTokens(nd.Parent), FromAtoms(nd.Name))
}

// RunHelpCase - the help text of node n obtained through Help(), the help option and the help command.
func RunHelpCase(d *Def, n int) (res Res) {
	cfg := &d.Cfg
	res = emptyRes(cfg)
	res.Help = emptyDoc()
	defer func() {
		if r := recover(); r != nil {
			res.Panic = fmt.Sprint(r)
		}
		getoptions.Writer = os.Stderr
	}()
	path := cfg.pathTokens(n)
	texts := []string{}
	// (c) Help() after parsing the path
	{
		var w bytes.Buffer
		getoptions.Writer = &w
		b := Build(cfg)
		b.Root.Parse(append([]string{}, path...))
		texts = append(texts, b.Root.Help())
		b.Cleanup()
	}
	h := cfg.HelpOpt()
	if h != 0 {
		hname := FromAtoms(cfg.Opts[h-1].Name)
		inTable := false
		for _, oi := range cfg.TableOpts(n) {
			if oi == h {
				inTable = true
			}
		}
		if inTable { // (a) the help option
			var w bytes.Buffer
			getoptions.Writer = &w
			b := Build(cfg)
			rest, err := b.Root.Parse(append(append([]string{}, path...), "--"+hname))
			if err == nil {
				w.Reset()
				b.Root.Dispatch(b.Ctx(), rest)
				texts = append(texts, w.String())
			}
			b.Cleanup()
		}
		{ // (b) the help command
			var w bytes.Buffer
			getoptions.Writer = &w
			b := Build(cfg)
			rest, err := b.Root.Parse(append(append([]string{}, path...), hname))
			if err == nil {
				w.Reset()
				b.Root.Dispatch(b.Ctx(), rest)
				texts = append(texts, w.String())
			}
			b.Cleanup()
		}
	}
	// (f) the same after the program looked at the help of every command while it was only half declared, and again
	// when everything was declared
	{
		var w bytes.Buffer
		getoptions.Writer = &w
		look := func(b *Built) {
			for _, g := range b.GOpts {
				if g != nil {
					g.Help()
				}
			}
		}
		b := BuildWith(cfg, look)
		look(b)
		if g := b.GOpts[n-1]; g != nil {
			texts = append(texts, g.Help())
		}
		b.Root.Parse(append([]string{}, path...))
		texts = append(texts, b.Root.Help())
		b.Cleanup()
	}
	// (d) Help() of the level's own GetOpt object without any Parse; (e) the text put together from its sections
	{
		var w bytes.Buffer
		getoptions.Writer = &w
		b := Build(cfg)
		if g := b.GOpts[n-1]; g != nil {
			texts = append(texts, g.Help())
			body := g.Help(getoptions.HelpSynopsis, getoptions.HelpCommandList, getoptions.HelpOptionList)
			name := g.Help(getoptions.HelpName)
			rest := strings.TrimPrefix(texts[0], name) // the name section is there for commands and for described programs
			if strings.HasPrefix(rest, body) {
				tail := rest[len(body):]
				if tail == "" || (strings.HasPrefix(tail, "Use '") && strings.HasSuffix(tail, " for extra details.\n") && strings.Count(tail, "\n") == 1) {
					texts = append(texts, texts[0])
				} else {
					texts = append(texts, "sections: unexpected tail "+tail)
				}
			} else {
				texts = append(texts, "sections: "+name+body)
			}
			// any list of sections gives the concatenation of the single sections, in the order asked for
			secs := []getoptions.HelpSection{getoptions.HelpOptionList, getoptions.HelpSynopsis, getoptions.HelpCommandList, getoptions.HelpName}
			for rot := 0; rot < 2; rot++ {
				order := append(append([]getoptions.HelpSection{}, secs[rot:]...), secs[:rot]...)
				want := ""
				for _, sc := range order {
					want += g.Help(sc)
				}
				if got := g.Help(order...); got == want {
					texts = append(texts, texts[0])
				} else {
					texts = append(texts, "sections in another order: "+got)
				}
			}
		}
		b.Cleanup()
	}
	res.Help = ParseHelp(texts[0], cfg.nodePath(n))
	res.Help.Paths = len(texts)
	res.Help.Three = true
	for _, t := range texts[1:] {
		if t != texts[0] {
			res.Help.Three = false
		}
	}
	res.HelpTxt = texts[0]
	res.Raw = strings.Join(texts, "\x00")
	return res
}
