package gh

import (
	"sort"
	"strconv"
	"strings"
	"unicode/utf8"
)

// OracleFor - conversion table (Go's strconv is the oracle the properties name) for every text the
// specification may ask about given these tokens: each token, each possible attached value, and the
// halves of every `a..b` range among them.
func OracleFor(cfg *Cfg, tokens []Tok) []OrcEntry {
	set := map[string]bool{}
	add := func(u string) {
		set[u] = true
		if strings.Contains(u, "..") {
			p := strings.SplitN(u, "..", 2)
			set[p[0]] = true
			set[p[1]] = true
		}
	}
	for _, t := range tokens {
		s := FromAtoms(t)
		add(s)
		for _, dashes := range []string{"--", "-"} {
			if !strings.HasPrefix(s, dashes) {
				continue
			}
			body := s[len(dashes):]
			if i := strings.Index(body, "="); i >= 0 {
				add(body[i+1:])
			}
			if len(body) > 0 {
				_, size := utf8.DecodeRuneInString(body)
				add(body[size:])
			}
		}
	}
	for _, o := range cfg.Opts {
		add(FromAtoms(o.DefT))
		for _, v := range o.Valid {
			add(FromAtoms(v))
		}
	}
	for _, st := range cfg.Sets {
		for _, v := range st.Vals {
			add(FromAtoms(v))
		}
	}
	for _, e := range cfg.Env {
		add(FromAtoms(e.Val))
		add(strings.ToLower(FromAtoms(e.Val)))
	}
	keys := []string{}
	for k := range set {
		keys = append(keys, k)
	}
	sort.Strings(keys)
	out := []OrcEntry{}
	for _, k := range keys {
		e := OrcEntry{T: ToAtoms(k)}
		if n, err := strconv.Atoi(k); err == nil {
			e.I = true
			e.Ic = strconv.Itoa(n)
			if n >= -1000000 && n <= 1000000 {
				e.Ivok = true
				e.Iv = n
			}
		}
		if f, err := strconv.ParseFloat(k, 64); err == nil {
			e.F = true
			e.Fb = FloatBits(f)
		}
		out = append(out, e)
	}
	return out
}
