package gh

var scalarKinds = []string{"bool", "incr", "string", "int", "float", "sopt", "iopt", "fopt"}
var multiKinds = []string{"sslice", "islice", "fslice", "smap", "bool", "string"}

// Profiles - random driver profiles, one per property (direction B beyond the bounded alphabets).
var Profiles = map[string]Profile{
	"C01": {Sets: 0.15, Lower: 0.15, Kinds: scalarKinds, MaxOpts: 5, Cmds: 0.3, Wrapper: 0.3, Help: 0.2, Wild: true, MaxArgv: 6, Modes: []int{0, 1, 2}, Ums: []int{0, 2}, Ro: 0.05},
	"C02": {Sets: 0.15, Env: 0.3, Kinds: multiKinds, MaxOpts: 4, Cmds: 0.3, Wild: true, MaxArgv: 8, Modes: []int{0, 1, 2}, Ums: []int{0, 2}, Ro: 0.05, Lower: 0.2},
	"C03": {Kinds: AllKinds, MaxOpts: 5, Cmds: 0.6, Help: 0.1, Wrapper: 0.2, Wild: true, MaxArgv: 7,
		Modes: []int{0, 1, 2}, Ums: []int{0, 1, 2, 2}, Ro: 0.25, LoneDash: 0.1},
	"C04":  {Kinds: AllKinds, MaxOpts: 5, Cmds: 0.5, Wild: false, MaxArgv: 8, Modes: []int{0, 1, 2}, Ums: []int{0, 1, 2}, Ro: 0.3, Dashes: 0.9},
	"C05":  {Kinds: AllKinds, MaxOpts: 8, Cmds: 0.5, Help: 0.3, Again: 0.1, Wild: false, MaxArgv: 5, Modes: []int{0, 1, 2}, Ums: []int{0, 2}, Ro: 0.1, Abbrev: 0.8},
	"C06":  {Kinds: AllKinds, MaxOpts: 6, Cmds: 0.4, Help: 0.4, Wrapper: 0.3, Wild: false, MaxArgv: 6, Modes: []int{0, 1, 2}, Ums: []int{0, 2}, Ro: 0.1, Env: 0.3, Aliases: 0.9, LoneDash: 0.1, Again: 0.15},
	"C07":  {Kinds: AllKinds, MaxOpts: 6, Cmds: 0.3, Wild: false, MaxArgv: 6, Modes: []int{0, 1, 2}, Ums: []int{0, 2}, Ro: 0.1, Short: 0.8, LoneDash: 0.15},
	"C08":  {Kinds: AllKinds, MaxOpts: 4, Cmds: 0.8, Help: 0.5, Wrapper: 0.4, Wild: false, MaxArgv: 7, Modes: []int{0, 1, 2}, Ums: []int{0, 1, 2}, Unknown: 0.5},
	"C10":  {Kinds: AllKinds, MaxOpts: 5, Cmds: 1.0, Help: 0.5, Wrapper: 0.3, Req: 0.3, Descs: 0.3, Wild: false, MaxArgv: 6, Modes: []int{0, 1, 2}, Ums: []int{0, 2}, Ro: 0.2, Disp: true},
	"C11":  {Sets: 0.2, Kinds: scalarKinds, MaxOpts: 5, Cmds: 0.8, Help: 0.7, Wrapper: 0.3, Req: 0.5, Env: 0.3, Wild: false, MaxArgv: 5, Modes: []int{0, 1, 2}, Ums: []int{0, 2}, Ro: 0.05, Disp: true, Again: 0.1},
	"C12":  {Sets: 0.15, Again: 0.1, Kinds: []string{"bool", "string", "int", "float", "sopt", "iopt", "fopt", "incr", "sslice"}, MaxOpts: 4, Cmds: 0.2, Env: 0.9, Valid: 0.2, Wild: true, MaxArgv: 4, Modes: []int{0, 1, 2}, Ums: []int{0, 2}, Ro: 0.1},
	"C17":  {Kinds: AllKinds, MaxOpts: 6, Cmds: 0.9, Help: 0.6, Wrapper: 0.2, Valid: 0.4, Sugg: 0.5, Wild: false, MaxArgv: 4, Modes: []int{0, 1, 2}, Ums: []int{0, 2}, Ro: 0.1, Comp: true, LoneDash: 0.1},
	"C18":  {Kinds: AllKinds, MaxOpts: 8, Cmds: 0.8, Help: 1.0, Req: 0.3, Env: 0.4, Wrapper: 0.2, Descs: 0.6, MaxArgv: 2, Modes: []int{0, 1, 2}, Ums: []int{0, 2}, Disp: true, HelpCases: true, LoneDash: 0.1},
	"C19":  {Sets: 0.15, Disp: true, Descs: 0.3, Kinds: AllKinds, MaxOpts: 7, Cmds: 0.7, Help: 0.6, Req: 0.3, Env: 0.4, Wrapper: 0.3, Valid: 0.2, Sugg: 0.3, Wild: true, MaxArgv: 8, Modes: []int{0, 1, 2}, Ums: []int{0, 1, 2}, Ro: 0.2, LoneDash: 0.15, Lower: 0.2, Unknown: 0.3},
	"C20":  {Kinds: AllKinds, MaxOpts: 7, Cmds: 0.7, Help: 0.5, Req: 0.6, Env: 0.2, Wrapper: 0.2, Wild: true, MaxArgv: 6, Modes: []int{0, 1, 2}, Ums: []int{0, 1, 2}, Ro: 0.1, Disp: true, Unknown: 0.5, Abbrev: 0.6},
	"C20c": {Kinds: AllKinds, MaxOpts: 6, Cmds: 0.9, Help: 0.6, Wrapper: 0.2, Valid: 0.4, Sugg: 0.5, MaxArgv: 4, Modes: []int{0, 1, 2}, Ums: []int{0, 2}, Ro: 0.1, Comp: true},
	"C09":  {Kinds: AllKinds, MaxOpts: 5, Cmds: 0.5, Wild: false, MaxArgv: 8, Modes: []int{0, 1, 2}, Ums: []int{0, 1, 2}, Ro: 0.9},
}
