// Package gh - conformance harness for go-getoptions: shared data model (program definition, cases, results).
package gh

import (
	"encoding/hex"
	"fmt"
	"sort"
	"strconv"
	"unicode/utf8"
)

// Tok - a token as a sequence of atoms (see spec/Getopt.tla).
type Tok []string

// ToAtoms - split a Go string into atoms: one per UTF-8 sequence, stray bytes alone.
func ToAtoms(s string) Tok {
	t := Tok{}
	for len(s) > 0 {
		r, size := utf8.DecodeRuneInString(s)
		if r != utf8.RuneError && size == 1 && s[0] >= 0x20 && s[0] <= 0x7e && s[0] != '"' && s[0] != '\\' {
			t = append(t, s[:1])
		} else {
			t = append(t, "x"+hex.EncodeToString([]byte(s[:size])))
		}
		s = s[size:]
	}
	return t
}

// FromAtoms - inverse of ToAtoms.
func FromAtoms(t Tok) string {
	b := []byte{}
	for _, a := range t {
		if len(a) == 1 {
			b = append(b, a[0])
		} else {
			h, err := hex.DecodeString(a[1:])
			if err != nil {
				panic("bad atom " + a)
			}
			b = append(b, h...)
		}
	}
	return string(b)
}

func ToksOf(ss []string) []Tok {
	out := make([]Tok, 0, len(ss))
	for _, s := range ss {
		out = append(out, ToAtoms(s))
	}
	return out
}

func StringsOf(ts []Tok) []string {
	out := make([]string, 0, len(ts))
	for _, t := range ts {
		out = append(out, FromAtoms(t))
	}
	return out
}

// T - shorthand used by family definitions.
func T(s string) Tok { return ToAtoms(s) }

func Ts(ss ...string) []Tok { return ToksOf(ss) }

type NodeCfg struct {
	Name     Tok      `json:"name"`
	Parent   int      `json:"parent"` // 1-based index, 0 for the root
	Um       int      `json:"um"`     // 0 fail 1 warn 2 pass (effective)
	Ro       bool     `json:"ro"`
	Unset    bool     `json:"unset"`
	Fn       bool     `json:"fn"`
	IsHelp   bool     `json:"ishelp"`
	Sugg     []Tok    `json:"sugg"`
	Desc     Tok      `json:"desc"`
	Args     []Tok    `json:"args"`  // HelpSynopsisArg names
	ArgsD    []Tok    `json:"argsd"` // ... and their descriptions
	DynFn    bool     `json:"dynfn"` // has a dynamic completion function (echoes DynOut)
	DynOut   []Tok    `json:"dynout"`
	ReqArgs  []string `json:"reqargs"`  // the command function fetches its arguments with GetRequiredArg ("s"), ...Int ("i"), ...Float64 ("f")
	Sorted   []Tok    `json:"sorted"`   // names and aliases visible at this level in Go's string order (ordering oracle)
	OptOrder []int    `json:"optorder"` // options visible at this level, ordered by primary name
	CmdOrder []int    `json:"cmdorder"` // child commands ordered by name
}

type OptCfg struct {
	Name       Tok    `json:"name"`
	Aliases    []Tok  `json:"aliases"`
	AliasSplit bool   `json:"aliassplit"` // builder only: every alias is given by its own Alias modifier
	ModLast    bool   `json:"modlast"`    // builder only: Alias / Description / ArgName / Required come after the other modifiers, in reverse
	Kind       string `json:"kind"`       // bool incr string int float sopt iopt fopt sslice islice fslice smap
	Min        int    `json:"min"`
	Max        int    `json:"max"`
	DefB       bool   `json:"defb"`
	DefI       int    `json:"defi"`
	DefT       Tok    `json:"deft"`
	Node       int    `json:"node"`
	Req        bool   `json:"req"`
	HasMsg     bool   `json:"hasmsg"`
	ReqMsg     Tok    `json:"reqmsg"`
	Env        Tok    `json:"env"`
	Valid      []Tok  `json:"valid"`
	Sugg       []Tok  `json:"sugg"`
	SuggFn     []Tok  `json:"suggfn"` // results of a dynamic value-completion function (none: no function)
	SetCalled  bool   `json:"setcalled"`
	IsHelpOpt  bool   `json:"ishelpopt"`
	Desc       Tok    `json:"desc"`
	ArgName    Tok    `json:"argname"`
	UseVar     bool   `json:"usevar"`
	DefFmt     Tok    `json:"deffmt"` // default as the help prints it, for float kinds (Go's %f formatting is not modelled)
}

type EnvCfg struct {
	Name Tok `json:"name"`
	Val  Tok `json:"val"`
}

// SetCfg - one SetValue(name, vals...) call made by the program after the definitions and before Parse.
// Opt = 0: a name that is not declared.
type SetCfg struct {
	Opt  int   `json:"opt"`
	Vals []Tok `json:"vals"`
}

type Cfg struct {
	// Late - SetMode / SetMapKeysToLower and the root's unknown mode / require-order are applied AFTER the commands
	// were declared (the order of these calls is not part of the documented protocol; the outcome must not depend on it)
	Late bool `json:"late"`
	// Inherit (builder only, ignored when Late) - a command whose unknown mode / require-order equals its parent's is not
	// given the setting explicitly: it relies on what NewCommand takes over from the parent
	Inherit bool `json:"inherit"`
	// OptsLate (builder only, needs the help command, which re-propagates the options) - the options of a level are
	// declared after its commands were created
	OptsLate bool `json:"optslate"`
	// EnvLate (builder only) - the GetEnv modifiers are created before the environment variables are set and applied
	// afterwards, when the options are declared: the variable is read when the option is declared
	EnvLate bool `json:"envlate"`
	// EnvStep (builder only) - the environment changes while the program is being declared: every variable bound to an
	// option is set right before that option is declared and absent until then
	EnvStep bool `json:"envstep"`
	// UnsetLate (builder only; only for trees whose wrappers have no options and only wrappers below them) - the whole
	// tree is declared first, then UnsetOptions is called on the wrappers, outermost first
	UnsetLate bool      `json:"unsetlate"`
	Mode      int       `json:"mode"`
	Lower     bool      `json:"lower"`
	Prog      Tok       `json:"prog"` // the name the program appears under in help texts and completion (os.Args[0] or Self)
	Self      bool      `json:"self"` // the name is given with Self(name, description) instead of coming from os.Args[0]
	Desc      Tok       `json:"desc"`
	Nodes     []NodeCfg `json:"nodes"`
	Opts      []OptCfg  `json:"opts"`
	Env       []EnvCfg  `json:"env"`
	Sets      []SetCfg  `json:"sets"`
}

type OrcEntry struct {
	T    Tok    `json:"t"`
	Miss bool   `json:"miss"`
	I    bool   `json:"i"`
	Ic   string `json:"ic"`
	Ivok bool   `json:"ivok"`
	Iv   int    `json:"iv"`
	F    bool   `json:"f"`
	Fb   string `json:"fb"`
}

type ErrRes struct {
	Kind      string `json:"kind"` // "" ambiguous missing dasharg conv keyvalue valid required unknown other
	Name      Tok    `json:"name"`
	Tok       Tok    `json:"tok"`
	Cands     []Tok  `json:"cands"`
	ReqCustom bool   `json:"reqcustom"` // required error carries the custom message
	ReqName   Tok    `json:"reqname"`   // option named in the default required message / custom message text
	IsParsing bool   `json:"isparsing"`
	IsHelp    bool   `json:"ishelp"`
	Msg       Tok    `json:"msg"`
}

// ReqRes - outcome of one GetRequiredArg* call made by the command function.
type ReqRes struct {
	Ek   string `json:"ek"`   // "" | missing | conv | other
	Val  Tok    `json:"val"`  // the argument handed out (string form) / canonical number
	Msg  Tok    `json:"msg"`  // missing: first line written to Writer; conv: error text
	Syn  bool   `json:"syn"`  // missing: the synopsis section followed on Writer
	Left int    `json:"left"` // number of arguments left afterwards
}

type RanRes struct {
	Node   int      `json:"node"`
	Args   []Tok    `json:"args"`
	ArgNil bool     `json:"argnil"`
	CtxOK  bool     `json:"ctxok"`
	ViewOK bool     `json:"viewok"`
	Req    []ReqRes `json:"req"`
}

type Res struct {
	Panic   string        `json:"panic"`
	Hang    bool          `json:"hang"`
	Err     ErrRes        `json:"err"`
	RestNil bool          `json:"restnil"`
	Rest    []Tok         `json:"rest"`
	Vals    []interface{} `json:"vals"`
	Called  []bool        `json:"called"`
	As      []Tok         `json:"as"`
	Agree   []bool        `json:"agree"`
	Warn    []Tok         `json:"warn"`
	WOther  bool          `json:"wother"` // Writer got something that is neither a warning nor help
	DErr    string        `json:"derr"`   // "" help required nofn notopic other
	DReq    ErrRes        `json:"dreq"`
	Ran     []RanRes      `json:"ran"`
	HelpOf  int           `json:"helpof"`
	HelpTxt string        `json:"-"`
	Comps   []Tok         `json:"comps"`
	CompNil bool          `json:"compnil"`
	Sorted  bool          `json:"sorted"`
	Help    HelpDoc       `json:"help"`
	NonDet  bool          `json:"nondet"`  // repeated executions of this very case differed (C20)
	RawHash string        `json:"rawhash"` // hash of everything observable incl. full messages and texts
	Exits   []int         `json:"exits"`
	SetErrs []string      `json:"seterrs"` // error kind of every SetValue call of the definition ("" = nil)
	Aliased bool          `json:"aliased"` // the remaining list shares memory with the argument slice given to Parse
	Raw     string        `json:"-"`       // everything observable, for run-to-run comparison (C20)
}

// Def - one definition line of a trace / family file.
type Def struct {
	Ev  string     `json:"ev"` // "def"
	ID  int        `json:"id"`
	N   int        `json:"n"`  // number of case lines that follow (trace files)
	SP  bool       `json:"sp"` // evaluate the specification's own property predicates on these cases
	Cfg Cfg        `json:"cfg"`
	Orc []OrcEntry `json:"orc"`
	// family only:
	Name   string `json:"fam"`
	Tokens []Tok  `json:"tokens"`
	L      int    `json:"L"`
	Disp   bool   `json:"disp"`
	Comp   bool   `json:"comp"`  // completion family: every word sequence is run as a COMP_LINE for bash and zsh
	HelpF  bool   `json:"helpf"` // help family: the help of every command level is requested through all paths
	// determinism-only family: the definition is outside what the specification admits (two options share a key along
	// one root-to-leaf chain); its cases are compared with their own repetitions only (C20)
	NDOnly bool `json:"ndonly,omitempty"`
	// history family: every argv is also run after an earlier Parse of each of these argument lists on the same object
	Pres [][]Tok `json:"pres,omitempty"`
}

// Case - one case line of a trace file.
type Case struct {
	Ev   string `json:"ev"` // "case"
	Def  int    `json:"def"`
	ID   int    `json:"id"`
	Argv []Tok  `json:"argv"`
	Disp bool   `json:"disp"`
	Comp string `json:"comp"` // "" | bash | zsh | help
	HN   int    `json:"hn"`   // help case: the node whose help is requested
	// robustness driver only: COMP_LINE text and Parse arguments given verbatim instead of being built from Argv
	UseRaw  bool     `json:"useraw,omitempty"`
	RawLine string   `json:"rawline,omitempty"`
	RawArgs []string `json:"rawargs,omitempty"`
	// determinism-only case: nothing but the nondet observable is compared
	NDOnly bool `json:"ndonly,omitempty"`
	// history case: an earlier Parse(Pre) ran on the same object before the observed Parse(Argv)
	HasPre bool `json:"haspre,omitempty"`
	// the earlier Parse ran before the help command / option was declared (a two-pass program)
	PreEarly bool  `json:"preearly,omitempty"`
	Pre      []Tok `json:"pre,omitempty"`
	Res      Res   `json:"res"`
}

func (c *Cfg) Normalize() {
	if c.Prog == nil {
		c.Prog = T("prog")
	}
	if c.Desc == nil {
		c.Desc = Tok{}
	}
	if c.Env == nil {
		c.Env = []EnvCfg{}
	}
	if c.Opts == nil {
		c.Opts = []OptCfg{}
	}
	if c.Sets == nil {
		c.Sets = []SetCfg{}
	}
	for i := range c.Sets {
		if c.Sets[i].Vals == nil {
			c.Sets[i].Vals = []Tok{}
		}
	}
	for i := range c.Nodes {
		n := &c.Nodes[i]
		if n.Name == nil {
			n.Name = Tok{}
		}
		if n.Sugg == nil {
			n.Sugg = []Tok{}
		}
		if n.Desc == nil {
			n.Desc = Tok{}
		}
		if n.Args == nil {
			n.Args = []Tok{}
		}
		if n.ArgsD == nil {
			n.ArgsD = []Tok{}
		}
		if n.DynOut == nil {
			n.DynOut = []Tok{}
		}
		if n.ReqArgs == nil {
			n.ReqArgs = []string{}
		}
	}
	for i := range c.Nodes {
		keys := []string{}
		for _, oi := range c.TableOpts(i + 1) {
			o := c.Opts[oi-1]
			keys = append(keys, FromAtoms(o.Name))
			for _, a := range o.Aliases {
				keys = append(keys, FromAtoms(a))
			}
		}
		sort.Strings(keys)
		c.Nodes[i].Sorted = ToksOf(keys)
		oo := append([]int{}, c.TableOpts(i+1)...)
		sort.SliceStable(oo, func(a, b int) bool { return FromAtoms(c.Opts[oo[a]-1].Name) < FromAtoms(c.Opts[oo[b]-1].Name) })
		c.Nodes[i].OptOrder = oo
		co := c.children(i + 1)
		sort.SliceStable(co, func(a, b int) bool { return FromAtoms(c.Nodes[co[a]-1].Name) < FromAtoms(c.Nodes[co[b]-1].Name) })
		c.Nodes[i].CmdOrder = co
	}
	for i := range c.Opts {
		o := &c.Opts[i]
		if o.Aliases == nil {
			o.Aliases = []Tok{}
		}
		if o.DefT == nil {
			o.DefT = Tok{}
		}
		if o.ReqMsg == nil {
			o.ReqMsg = Tok{}
		}
		if o.Env == nil {
			o.Env = Tok{}
		}
		if o.Valid == nil {
			o.Valid = []Tok{}
		}
		if o.Sugg == nil {
			o.Sugg = []Tok{}
		}
		if o.SuggFn == nil {
			o.SuggFn = []Tok{}
		}
		if o.Desc == nil {
			o.Desc = Tok{}
		}
		if o.ArgName == nil {
			o.ArgName = Tok{}
		}
		o.DefFmt = Tok{}
		switch o.Kind {
		case "incr":
			o.DefFmt = T(strconv.Itoa(o.DefI))
		case "int", "iopt":
			if len(o.DefT) == 0 {
				o.DefT = T("0")
			}
			if n, err := strconv.Atoi(FromAtoms(o.DefT)); err == nil {
				o.DefFmt = T(strconv.Itoa(n))
			}
		case "float", "fopt":
			if len(o.DefT) == 0 {
				o.DefT = T("0")
			}
			if f, err := strconv.ParseFloat(FromAtoms(o.DefT), 64); err == nil {
				o.DefFmt = T(fmt.Sprintf("%f", f))
			}
		}
	}
}
