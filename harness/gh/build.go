package gh

import (
	"bytes"
	"context"
	"errors"
	"fmt"
	"math"
	"os"
	"reflect"
	"sort"
	"strconv"
	"strings"

	"github.com/DavidGamba/go-getoptions"
)

type ctxKey string

// Built - a real program definition built from a Cfg through the public API.
type Built struct {
	Cfg     *Cfg
	Root    *getoptions.GetOpt
	GOpts   []*getoptions.GetOpt // per node (nil for help nodes, which HelpCommand creates)
	Ptrs    []interface{}        // per option: pointer to the variable holding its value
	Ran     []RanRes
	CtxTag  interface{}
	envSet  []string
	SetErrs []string // error kinds of the definition's SetValue calls
	envFns  map[int]getoptions.ModifyFn
	midHook func(b *Built) // runs while the program is only half declared (see BuildWith)
}

// scrubEnv - every variable the definition binds or sets is absent.
func (b *Built) scrubEnv() {
	for _, e := range b.Cfg.Env {
		os.Unsetenv(FromAtoms(e.Name))
	}
	for _, o := range b.Cfg.Opts {
		if len(o.Env) > 0 {
			os.Unsetenv(FromAtoms(o.Env))
		}
	}
}

func (c *Cfg) children(n int) []int {
	out := []int{}
	for i, nd := range c.Nodes {
		if nd.Parent == n {
			out = append(out, i+1)
		}
	}
	return out
}

// TableOpts - option indices (1-based) visible at node n, mirroring the documented inheritance.
func (c *Cfg) TableOpts(n int) []int {
	nd := c.Nodes[n-1]
	if nd.IsHelp {
		return nil
	}
	out := []int{}
	for i, o := range c.Opts {
		if o.Node == n {
			out = append(out, i+1)
		}
	}
	if !nd.Unset && nd.Parent != 0 {
		out = append(out, c.TableOpts(nd.Parent)...)
	}
	sort.Ints(out)
	return out
}

func (c *Cfg) HelpOpt() int {
	for i, o := range c.Opts {
		if o.IsHelpOpt {
			return i + 1
		}
	}
	return 0
}

// SetEnv - installs the environment of the definition (GetEnv reads it at definition time).
func (b *Built) setEnv() {
	bound := map[string]bool{}
	if b.Cfg.EnvStep {
		for _, o := range b.Cfg.Opts {
			if len(o.Env) > 0 {
				bound[FromAtoms(o.Env)] = true
			}
		}
	}
	for _, e := range b.Cfg.Env {
		name := FromAtoms(e.Name)
		b.envSet = append(b.envSet, name)
		if bound[name] {
			os.Unsetenv(name) // set when the option that reads it is declared (defineOpt)
			continue
		}
		os.Setenv(name, FromAtoms(e.Val))
	}
	// env variables bound by options but not set must be absent
	for _, o := range b.Cfg.Opts {
		if len(o.Env) > 0 {
			name := FromAtoms(o.Env)
			found := false
			for _, e := range b.Cfg.Env {
				if FromAtoms(e.Name) == name {
					found = true
				}
			}
			if !found {
				os.Unsetenv(name)
			}
		}
	}
}

func (b *Built) Cleanup() {
	for _, n := range b.envSet {
		os.Unsetenv(n)
	}
	os.Unsetenv("COMP_LINE")
	os.Unsetenv("ZSHELL")
}

// Build - define the program. Panics of the library propagate to the caller.
func Build(cfg *Cfg) *Built { return BuildWith(cfg, nil) }

// BuildWith - like Build; beforeHelp (if any) runs when everything but the help command / option has been declared
// (a two-pass program parses once before it knows all its options) and, when the options of a level are declared after
// its commands (OptsLate), also earlier: when the top level's commands exist and its options do not yet.
func BuildWith(cfg *Cfg, beforeHelp func(b *Built)) *Built {
	b := &Built{Cfg: cfg, CtxTag: new(int), midHook: beforeHelp}
	os.Args = []string{FromAtoms(cfg.Prog)}
	if cfg.Self {
		os.Args = []string{"/some/where/else"}
	}
	root := getoptions.New()
	if cfg.EnvLate {
		// the modifiers exist before the variables do
		b.scrubEnv()
		b.envFns = map[int]getoptions.ModifyFn{}
		for i, o := range cfg.Opts {
			if len(o.Env) > 0 {
				b.envFns[i] = root.GetEnv(FromAtoms(o.Env))
			}
		}
	}
	b.setEnv()
	if cfg.Self {
		root.Self(FromAtoms(cfg.Prog), FromAtoms(cfg.Desc))
	} else if len(cfg.Desc) > 0 {
		root.Self("", FromAtoms(cfg.Desc))
	}
	if !cfg.Late {
		root.SetMode(getoptions.Mode(cfg.Mode))
		if cfg.Lower {
			root.SetMapKeysToLower()
		}
	}
	b.Root = root
	b.GOpts = make([]*getoptions.GetOpt, len(cfg.Nodes))
	b.Ptrs = make([]interface{}, len(cfg.Opts))
	b.defineNode(1, root)
	if cfg.Late {
		root.SetMode(getoptions.Mode(cfg.Mode))
		if cfg.Lower {
			root.SetMapKeysToLower()
		}
		// the root's own settings, now that the commands exist (every command was given its own explicitly)
		root.SetUnknownMode(getoptions.UnknownMode(cfg.Nodes[0].Um))
		if cfg.Nodes[0].Ro {
			root.SetRequireOrder()
		}
	}
	if cfg.UnsetLate {
		for i, nd := range cfg.Nodes { // parents come before their children in the node list: outermost first
			if nd.Unset && b.GOpts[i] != nil {
				b.GOpts[i].UnsetOptions()
			}
		}
	}
	if beforeHelp != nil {
		beforeHelp(b)
	}
	if h := cfg.HelpOpt(); h != 0 {
		o := cfg.Opts[h-1]
		fns := []getoptions.ModifyFn{}
		fns = append(fns, aliasFns(root, &o)...)
		if len(o.Desc) > 0 {
			fns = append(fns, root.Description(FromAtoms(o.Desc)))
		}
		root.HelpCommand(FromAtoms(o.Name), fns...)
	}
	// the program's own SetValue calls, after everything is defined
	b.SetErrs = []string{}
	for _, st := range cfg.Sets {
		var err error
		if st.Opt == 0 {
			err = root.SetValue("verif-not-declared", StringsOf(st.Vals)...)
		} else {
			o := cfg.Opts[st.Opt-1]
			err = b.GOpts[o.Node-1].SetValue(FromAtoms(o.Name), StringsOf(st.Vals)...)
		}
		kind := ClassifyErr(err).Kind
		if errors.Is(err, getoptions.ErrorNotFound) {
			kind = "notfound"
		}
		b.SetErrs = append(b.SetErrs, kind)
	}
	return b
}

func (b *Built) defineNode(n int, g *getoptions.GetOpt) {
	cfg := b.Cfg
	nd := cfg.Nodes[n-1]
	b.GOpts[n-1] = g
	if nd.Unset && !cfg.UnsetLate {
		g.UnsetOptions()
	}
	if !(b.Cfg.Late && n == 1) {
		inherit := cfg.Inherit && !cfg.Late && n > 1
		if !(inherit && nd.Um == cfg.Nodes[nd.Parent-1].Um) {
			g.SetUnknownMode(getoptions.UnknownMode(nd.Um))
		}
		if nd.Ro && !(inherit && cfg.Nodes[nd.Parent-1].Ro) {
			g.SetRequireOrder()
		}
	}
	if nd.Fn {
		g.SetCommandFn(b.commandFn(n))
	}
	if len(nd.Sugg) > 0 {
		g.ArgCompletions(StringsOf(nd.Sugg)...)
	}
	if nd.DynFn {
		out := StringsOf(nd.DynOut)
		// the function answers its fixed list plus one candidate that spells out the arguments it was called with
		g.ArgCompletionsFns(func(target string, prev []string, partial string) []string {
			return append(append([]string{}, out...), "@"+target+"@"+strings.Join(prev, ",")+"@"+partial)
		})
	}
	for i := range nd.Args {
		d := ""
		if i < len(nd.ArgsD) {
			d = FromAtoms(nd.ArgsD[i])
		}
		g.HelpSynopsisArg(FromAtoms(nd.Args[i]), d)
	}
	kids := []int{}
	for _, c := range cfg.children(n) {
		if !cfg.Nodes[c-1].IsHelp {
			kids = append(kids, c)
		}
	}
	// options declared after the commands of the level reach those commands when the help command is declared (at the
	// very end) or as soon as one more command is created at this level: without a help command the options are
	// declared before the last command
	optsAt := 0 // number of commands created before the options are declared
	if cfg.OptsLate {
		if cfg.HelpOpt() != 0 {
			optsAt = len(kids)
		} else if len(kids) >= 2 {
			optsAt = len(kids) - 1
		}
	}
	defineOpts := func() {
		for i, o := range cfg.Opts {
			if o.Node == n && !o.IsHelpOpt {
				b.defineOpt(i, g)
			}
		}
	}
	for k, c := range kids {
		if k == optsAt {
			if n == 1 && k > 0 && b.midHook != nil {
				b.midHook(b)
			}
			defineOpts()
		}
		cg := g.NewCommand(FromAtoms(cfg.Nodes[c-1].Name), FromAtoms(cfg.Nodes[c-1].Desc))
		b.defineNode(c, cg)
	}
	if optsAt >= len(kids) {
		if n == 1 && len(kids) > 0 && b.midHook != nil {
			b.midHook(b)
		}
		defineOpts()
	}
}

func mustInt(t Tok) int {
	n, err := strconv.Atoi(FromAtoms(t))
	if err != nil {
		panic(fmt.Sprintf("harness: bad int default %q", FromAtoms(t)))
	}
	return n
}

func mustFloat(t Tok) float64 {
	f, err := strconv.ParseFloat(FromAtoms(t), 64)
	if err != nil {
		panic(fmt.Sprintf("harness: bad float default %q", FromAtoms(t)))
	}
	return f
}

func (b *Built) defineOpt(i int, g *getoptions.GetOpt) {
	o := b.Cfg.Opts[i]
	name := FromAtoms(o.Name)
	if b.Cfg.EnvStep && len(o.Env) > 0 {
		for _, e := range b.Cfg.Env {
			if FromAtoms(e.Name) == FromAtoms(o.Env) {
				os.Setenv(FromAtoms(e.Name), FromAtoms(e.Val))
			}
		}
	}
	fns := []getoptions.ModifyFn{}
	// modifiers whose position among the others cannot matter (ValidValues -> SuggestedValues -> GetEnv keep their
	// relative order: the environment value is checked against the valid values known at that moment)
	free := []getoptions.ModifyFn{}
	aliases := aliasFns(g, &o) // several Alias modifiers keep their order: it is the order the help lists the aliases in
	if !o.ModLast {
		free = append(free, aliases...)
	}
	if len(o.Desc) > 0 {
		free = append(free, g.Description(FromAtoms(o.Desc)))
	}
	if len(o.ArgName) > 0 {
		free = append(free, g.ArgName(FromAtoms(o.ArgName)))
	}
	if o.Req {
		if o.HasMsg && o.ModLast {
			// the message comes from a buffer the program reuses as soon as it has the modifier in hand
			buf := []string{FromAtoms(o.ReqMsg)}
			free = append(free, g.Required(buf...))
			buf[0] = "overwritten by the caller"
		} else if o.HasMsg {
			free = append(free, g.Required(FromAtoms(o.ReqMsg)))
		} else {
			free = append(free, g.Required())
		}
	}
	if !o.ModLast {
		fns = append(fns, free...)
	} else if o.SetCalled {
		fns = append(fns, g.SetCalled(true)) // marking the option as called does not stand in for its environment variable
	}
	if len(o.Valid) > 0 {
		fns = append(fns, g.ValidValues(StringsOf(o.Valid)...))
	}
	if len(o.Sugg) > 0 {
		fns = append(fns, g.SuggestedValues(StringsOf(o.Sugg)...))
	}
	if len(o.SuggFn) > 0 {
		out := StringsOf(o.SuggFn)
		fns = append(fns, g.SuggestedValuesFn(func(target string, partial string) []string {
			return append(append([]string{}, out...), partial+"@"+target)
		}))
	}
	if len(o.Env) > 0 {
		if fn, ok := b.envFns[i]; ok {
			fns = append(fns, fn)
		} else {
			fns = append(fns, g.GetEnv(FromAtoms(o.Env)))
		}
	}
	if o.SetCalled && !o.ModLast {
		fns = append(fns, g.SetCalled(true))
	}
	if o.ModLast {
		for k := len(free) - 1; k >= 0; k-- {
			fns = append(fns, free[k])
		}
		fns = append(fns, aliases...)
	}
	switch o.Kind {
	case "bool":
		if o.UseVar {
			v := !o.DefB // whatever the variable held before, the definition puts the default there
			g.BoolVar(&v, name, o.DefB, fns...)
			b.Ptrs[i] = &v
		} else {
			b.Ptrs[i] = g.Bool(name, o.DefB, fns...)
		}
	case "incr":
		if o.UseVar {
			v := 4242
			g.IncrementVar(&v, name, o.DefI, fns...)
			b.Ptrs[i] = &v
		} else {
			b.Ptrs[i] = g.Increment(name, o.DefI, fns...)
		}
	case "string":
		if o.UseVar {
			v := "left over"
			g.StringVar(&v, name, FromAtoms(o.DefT), fns...)
			b.Ptrs[i] = &v
		} else {
			b.Ptrs[i] = g.String(name, FromAtoms(o.DefT), fns...)
		}
	case "sopt":
		if o.UseVar {
			v := "left over"
			g.StringVarOptional(&v, name, FromAtoms(o.DefT), fns...)
			b.Ptrs[i] = &v
		} else {
			b.Ptrs[i] = g.StringOptional(name, FromAtoms(o.DefT), fns...)
		}
	case "int":
		if o.UseVar {
			v := 4242
			g.IntVar(&v, name, mustInt(o.DefT), fns...)
			b.Ptrs[i] = &v
		} else {
			b.Ptrs[i] = g.Int(name, mustInt(o.DefT), fns...)
		}
	case "iopt":
		if o.UseVar {
			v := 4242
			g.IntVarOptional(&v, name, mustInt(o.DefT), fns...)
			b.Ptrs[i] = &v
		} else {
			b.Ptrs[i] = g.IntOptional(name, mustInt(o.DefT), fns...)
		}
	case "float":
		if o.UseVar {
			v := 42.42
			g.Float64Var(&v, name, mustFloat(o.DefT), fns...)
			b.Ptrs[i] = &v
		} else {
			b.Ptrs[i] = g.Float64(name, mustFloat(o.DefT), fns...)
		}
	case "fopt":
		if o.UseVar {
			v := 42.42
			g.Float64VarOptional(&v, name, mustFloat(o.DefT), fns...)
			b.Ptrs[i] = &v
		} else {
			b.Ptrs[i] = g.Float64Optional(name, mustFloat(o.DefT), fns...)
		}
	case "sslice":
		if o.UseVar {
			var v []string
			g.StringSliceVar(&v, name, o.Min, realMax(o.Max), fns...)
			b.Ptrs[i] = &v
		} else {
			b.Ptrs[i] = g.StringSlice(name, o.Min, realMax(o.Max), fns...)
		}
	case "islice":
		if o.UseVar {
			var v []int
			g.IntSliceVar(&v, name, o.Min, realMax(o.Max), fns...)
			b.Ptrs[i] = &v
		} else {
			b.Ptrs[i] = g.IntSlice(name, o.Min, realMax(o.Max), fns...)
		}
	case "fslice":
		if o.UseVar {
			var v []float64
			g.Float64SliceVar(&v, name, o.Min, realMax(o.Max), fns...)
			b.Ptrs[i] = &v
		} else {
			b.Ptrs[i] = g.Float64Slice(name, o.Min, realMax(o.Max), fns...)
		}
	case "smap":
		if o.UseVar {
			var v map[string]string
			g.StringMapVar(&v, name, o.Min, realMax(o.Max), fns...)
			b.Ptrs[i] = &v
		} else {
			m := g.StringMap(name, o.Min, realMax(o.Max), fns...)
			b.Ptrs[i] = &m
		}
	default:
		panic("harness: unknown kind " + o.Kind)
	}
}

// PtrValue - the Go value behind option i.
func (b *Built) PtrValue(i int) interface{} {
	if b.Ptrs[i] == nil { // help option: only reachable through Value()
		return b.Root.Value(FromAtoms(b.Cfg.Opts[i].Name))
	}
	return reflect.ValueOf(b.Ptrs[i]).Elem().Interface()
}

// NormVal - normal form of a Go option value, comparable with the specification's value.
func NormVal(kind string, v interface{}) interface{} {
	switch x := v.(type) {
	case bool:
		return x
	case string:
		return ToAtoms(x)
	case int:
		if kind == "incr" {
			return x
		}
		return strconv.Itoa(x)
	case float64:
		return FloatBits(x)
	case []string:
		return ToksOf(x)
	case []int:
		out := []string{}
		for _, n := range x {
			out = append(out, strconv.Itoa(n))
		}
		return out
	case []float64:
		out := []string{}
		for _, f := range x {
			out = append(out, FloatBits(f))
		}
		return out
	case map[string]string:
		keys := []string{}
		for k := range x {
			keys = append(keys, k)
		}
		sort.Strings(keys)
		out := [][]Tok{}
		for _, k := range keys {
			out = append(out, []Tok{ToAtoms(k), ToAtoms(x[k])})
		}
		return out
	case nil:
		return "nil"
	}
	return fmt.Sprintf("?%T", v)
}

func FloatBits(f float64) string {
	return strconv.FormatUint(math.Float64bits(f), 16)
}

func (b *Built) commandFn(n int) getoptions.CommandFn {
	return func(ctx context.Context, view *getoptions.GetOpt, args []string) error {
		r := RanRes{Node: n, Args: ToksOf(args), ArgNil: args == nil}
		r.CtxOK = ctx != nil && ctx.Value(ctxKey("verif")) == b.CtxTag
		// the view must report, for every option visible at this level, the parsed value and Called/CalledAs
		r.ViewOK = true
		vis := map[int]bool{}
		for _, oi := range b.Cfg.TableOpts(n) {
			vis[oi] = true
			o := b.Cfg.Opts[oi-1]
			names := append([]Tok{o.Name}, o.Aliases...)
			for _, nm := range names {
				s := FromAtoms(nm)
				if !sameValue(o.Kind, view.Value(s), b.PtrValue(oi-1)) {
					r.ViewOK = false
				}
				if view.Called(s) != b.Root0Called(oi-1) || view.CalledAs(s) != b.Root0CalledAs(oi-1) {
					r.ViewOK = false
				}
			}
		}
		r.Req = []ReqRes{}
		if kinds := b.Cfg.Nodes[n-1].ReqArgs; len(kinds) > 0 {
			saved := getoptions.Writer
			rest := args
			for _, k := range kinds {
				var w bytes.Buffer
				getoptions.Writer = &w
				q := ReqRes{Val: Tok{}, Msg: Tok{}}
				var err error
				switch k {
				case "i":
					var v int
					v, rest, err = view.GetRequiredArgInt(rest)
					if err == nil {
						q.Val = Tok{strconv.Itoa(v)}
					}
				case "f":
					var v float64
					v, rest, err = view.GetRequiredArgFloat64(rest)
					if err == nil {
						q.Val = Tok{FloatBits(v)}
					}
				default:
					var v string
					v, rest, err = view.GetRequiredArg(rest)
					if err == nil {
						q.Val = ToAtoms(v)
					}
				}
				q.Left = len(rest)
				out := w.String()
				switch {
				case err == nil:
				case errors.Is(err, getoptions.ErrorHelpCalled):
					q.Ek = "missing"
					line := out
					if i := strings.Index(out, "\n"); i >= 0 {
						line = out[:i]
						q.Syn = strings.HasPrefix(out[i+1:], "SYNOPSIS:\n")
					}
					q.Msg = ToAtoms(line)
				case strings.HasPrefix(err.Error(), "Argument error: Can't convert string to"):
					q.Ek = "conv"
					q.Msg = ToAtoms(err.Error())
				default:
					q.Ek = "other"
				}
				r.Req = append(r.Req, q)
			}
			getoptions.Writer = saved
		}
		b.Ran = append(b.Ran, r)
		return nil
	}
}

// Root0Called - Called() as seen through the GetOpt object that owns the option.
func (b *Built) Root0Called(i int) bool {
	o := b.Cfg.Opts[i]
	return b.GOpts[o.Node-1].Called(FromAtoms(o.Name))
}

func (b *Built) Root0CalledAs(i int) string {
	o := b.Cfg.Opts[i]
	return b.GOpts[o.Node-1].CalledAs(FromAtoms(o.Name))
}

func (b *Built) Ctx() context.Context {
	return context.WithValue(context.Background(), ctxKey("verif"), b.CtxTag)
}

// aliasFns - the aliases as one Alias modifier, or as one modifier per alias.
func aliasFns(g *getoptions.GetOpt, o *OptCfg) []getoptions.ModifyFn {
	if len(o.Aliases) == 0 {
		return nil
	}
	if !o.AliasSplit {
		return []getoptions.ModifyFn{g.Alias(StringsOf(o.Aliases)...)}
	}
	fns := []getoptions.ModifyFn{}
	for _, a := range o.Aliases {
		fns = append(fns, g.Alias(FromAtoms(a)))
	}
	return fns
}

// Unlimited - the largest maximum a definition can carry (the specification's integers are 32 bits wide): the
// program is built with math.MaxInt, "as many as there are".
const Unlimited = 1000000

func realMax(m int) int {
	if m >= Unlimited {
		return math.MaxInt
	}
	return m
}
