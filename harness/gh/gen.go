package gh

import (
	"math/rand"
	"strings"
)

// Profile - knobs of the random definition / argv generator.
type Profile struct {
	Kinds    []string
	MaxOpts  int
	Cmds     float64 // probability of a command tree
	Help     float64
	Env      float64
	Req      float64
	Valid    float64
	Wrapper  float64
	Disp     bool
	Wild     bool // wild value texts (Unicode, control characters, stray bytes, numerals at the boundaries)
	MaxArgv  int
	Modes    []int
	Ums      []int
	Ro       float64
	LoneDash float64 // probability that "-" is a declared option name
	Lower    float64
	// argv shaping
	Dashes    float64 // extra `--` tokens
	Abbrev    float64 // probability of abbreviating a name
	Aliases   float64 // probability of giving an option aliases
	Short     float64 // probability of single-dash spelling
	Unknown   float64 // extra unknown options
	Sugg      float64 // suggested values / static argument suggestions
	Comp      bool    // completion cases (argv = COMP_LINE words)
	HelpCases bool    // also request the help of every command level
	Descs     float64 // descriptions (some multi-line) on options and commands
	Again     float64 // probability that a case is run after an earlier Parse on the same object
	Sets      float64 // probability that the program calls SetValue between the definitions and Parse
}

var AllKinds = []string{"bool", "incr", "string", "int", "float", "sopt", "iopt", "fopt", "sslice", "islice", "fslice", "smap"}

var namePool = []string{"V", "Ver", "VERBOSE", "v", "ver", "verbose", "version", "x", "y", "z", "s", "str", "string", "l", "list", "m", "map",
	"n", "num", "f", "flt", "q", "quiet", "é", "ü", "über", "日", "日本", "o", "out", "output", "t", "tag", "h", "he", "k", "key",
	"dry-run", "dry", "no-v", "a-b-c", "2", "n1", "n01", "n001", "x2", "x10", "1st", "o.x", "a_b", "x:y"}

var cmdPool = []string{"cmd", "sub", "run", "build", "Build", "RUN", "c", "日本", "log", "list", "str", "sub-cmd", "2", "a.b"}

var wordPool = []string{"a", "b", "val", "foo", "cmd", "sub", "run", "true", "false", "help", "x", ""}

var numPool = []string{"0", "1", "-1", "7", "42", "+5", "007", "1.5", "-2.25", "1e3", ".5", "5.", "1_000", "0x1F", "NaN", "Inf", "-Inf",
	"9223372036854775807", "9223372036854775808", "-9223372036854775808", "-9223372036854775809", "1e999", "4.9e-324",
	"1x", "x1", " 1", "1 ", "１２", "1..3", "3..1", "1..1", "-2..2", "1..x", "..", "1..", "..3", "1...3", "2..4..6"}

var wildPool = []string{"a b", "a\nb", "\n", "\t", "a=b", "=", "==", "a=", "=a", "k=v", "k=v=w", "K=V", "é", "ü=ö", "日本語", "é", "‮abc",
	"😀", "\x00", "a\x00b", "\x80", "\xff\xfe", "a\xbfb", "'", "\"", "\\", "a'b", "%s", "%d%n", "[a b]", "!", "--", "-", "-x", "--x", "-=", "--=", "---",
	strings.Repeat("a", 300), "ＴＲＵＥ", "TRUE", "True", "FALSE", "yes", "0", "1"}

func pick(r *rand.Rand, ss []string) string { return ss[r.Intn(len(ss))] }

func chance(r *rand.Rand, p float64) bool { return r.Float64() < p }

// GenDef - a random valid program definition.
func GenDef(r *rand.Rand, p *Profile) Cfg {
	c := Cfg{Mode: p.Modes[r.Intn(len(p.Modes))], Lower: chance(r, p.Lower), Late: chance(r, 0.3)}
	um := p.Ums[r.Intn(len(p.Ums))]
	ro := chance(r, p.Ro)
	c.Nodes = []NodeCfg{{Name: Tok{}, Parent: 0, Um: um, Ro: ro, Fn: chance(r, 0.7)}}
	if chance(r, p.Cmds) {
		ncmd := 1 + r.Intn(3)
		used := map[string]bool{}
		for i := 0; i < ncmd; i++ {
			name := pick(r, cmdPool)
			if used[name] {
				continue
			}
			used[name] = true
			n := NodeCfg{Name: T(name), Parent: 1, Um: um, Ro: ro, Fn: chance(r, 0.8)}
			if chance(r, p.Wrapper) {
				n.Unset = true
				n.Um = 2
			} else if chance(r, 0.2) {
				n.Um = p.Ums[r.Intn(len(p.Ums))]
			}
			if !n.Ro && chance(r, p.Ro/2) {
				n.Ro = true
			}
			c.Nodes = append(c.Nodes, n)
			if chance(r, 0.4) {
				sn := pick(r, cmdPool)
				sub := NodeCfg{Name: T(sn), Parent: len(c.Nodes), Um: n.Um, Ro: n.Ro || chance(r, p.Ro/2), Fn: chance(r, 0.8)}
				c.Nodes = append(c.Nodes, sub)
				if chance(r, 0.25) {
					// a third level, now and then with settings of its own
					ssn := NodeCfg{Name: T(pick(r, cmdPool)), Parent: len(c.Nodes), Um: sub.Um, Ro: sub.Ro, Fn: chance(r, 0.8)}
					if chance(r, 0.3) {
						ssn.Um = p.Ums[r.Intn(len(p.Ums))]
					}
					c.Nodes = append(c.Nodes, ssn)
				}
			}
		}
	}
	if p.Disp {
		for i := range c.Nodes {
			if c.Nodes[i].Fn && chance(r, 0.3) {
				for k := 1 + r.Intn(3); k > 0; k-- {
					c.Nodes[i].ReqArgs = append(c.Nodes[i].ReqArgs, pick(r, []string{"s", "s", "i", "f"}))
				}
			}
		}
	}
	if p.Sugg > 0 {
		for i := range c.Nodes {
			if chance(r, p.Sugg) {
				c.Nodes[i].Sugg = Ts("sarg", "run-all", "list", "50%off")
			}
			if chance(r, p.Sugg/3) {
				c.Nodes[i].DynFn = true
				c.Nodes[i].DynOut = Ts("dyn", "a b", "%s")
			}
		}
	}
	if p.Descs > 0 {
		for i := range c.Nodes {
			if i > 0 && chance(r, p.Descs) {
				c.Nodes[i].Desc = T(pick(r, []string{"a command", "does this\nand that", "z"}))
			}
			if chance(r, p.Descs/3) {
				switch r.Intn(4) {
				case 0:
					c.Nodes[i].Args = Ts("<file>", "<n>")
					c.Nodes[i].ArgsD = Ts("the file", "")
				case 1:
					c.Nodes[i].Args = Ts("<src>", "<dst>")
					c.Nodes[i].ArgsD = Ts("", "where to")
				case 2:
					c.Nodes[i].Args = Ts("<one>")
					c.Nodes[i].ArgsD = Ts(pick(r, []string{"", "the one"}))
				default:
					c.Nodes[i].Args = Ts("<a>", "<b>", "<c>")
					c.Nodes[i].ArgsD = Ts("first", "second\nline", "third")
				}
			}
		}
		if chance(r, p.Descs) {
			c.Desc = T("program description")
		}
	}
	// options: a name or alias must be unique among the options visible together, i.e. along every root..leaf chain;
	// sibling commands may (and do) reuse names
	related := func(a, b int) bool { // is a an ancestor-or-self of b, or the other way round?
		anc := func(x, y int) bool { // are the options declared at x visible at y? (not across a wrapper's UnsetOptions)
			for y != 0 {
				if y == x {
					return true
				}
				if c.Nodes[y-1].Unset {
					return false
				}
				y = c.Nodes[y-1].Parent
			}
			return false
		}
		return anc(a, b) || anc(b, a)
	}
	usedAt := map[string][]int{} // name -> nodes that declare it
	free := func(name string, node int) bool {
		for _, n := range usedAt[name] {
			if related(n, node) {
				return false
			}
		}
		return true
	}
	taken := map[string]bool{} // names used anywhere (help / env bookkeeping)
	nopt := 1 + r.Intn(p.MaxOpts)
	if chance(r, 0.04) {
		nopt = 18 + r.Intn(12) // now and then a program with very many options
	}
	envN := 0
	for i := 0; i < nopt; i++ {
		name := pick(r, namePool)
		if i == 0 && chance(r, p.LoneDash) {
			name = "-"
		}
		node := 1 + r.Intn(len(c.Nodes))
		if !free(name, node) {
			continue
		}
		usedAt[name] = append(usedAt[name], node)
		taken[name] = true
		kind := pick(r, p.Kinds)
		o := OptCfg{Kind: kind, Name: T(name), Node: node, Min: 1, Max: 1, UseVar: chance(r, 0.5)}
		na := r.Intn(3)
		if !chance(r, 0.5+p.Aliases/2) {
			na = 0
		}
		for j := 0; j < na; j++ {
			a := pick(r, namePool)
			if free(a, node) {
				usedAt[a] = append(usedAt[a], node)
				taken[a] = true
				o.Aliases = append(o.Aliases, T(a))
			}
		}
		o.AliasSplit = len(o.Aliases) > 1 && chance(r, 0.4)
		o.ModLast = chance(r, 0.3)
		switch kind {
		case "bool":
			o.DefB = chance(r, 0.3)
		case "incr":
			o.DefI = r.Intn(3)
		case "string", "sopt":
			o.DefT = T(pick(r, []string{"def", "", "d e f", "a\\b \"c\" %s", "\ttab"}))
		case "int", "iopt":
			o.DefT = T(pick(r, []string{"0", "7", "-3"}))
		case "float", "fopt":
			o.DefT = T(pick(r, []string{"0", "7.5", "-1e-3"}))
		case "sslice", "islice", "fslice", "smap":
			o.Min = 1 + r.Intn(3)
			o.Max = o.Min + r.Intn(3)
			if chance(r, 0.05) {
				o.Max = Unlimited
			}
		}
		if chance(r, p.Req) {
			o.Req = true
			if chance(r, 0.5) {
				o.HasMsg = true
				o.ReqMsg = T(pick(r, []string{"need " + name, "custom: give it", "please", "at least 10% of " + name, "%s is missing (%d)"}))
			}
		}
		if chance(r, p.Env) {
			switch kind {
			case "bool", "string", "int", "float", "sopt", "iopt", "fopt", "incr", "sslice", "islice", "fslice", "smap":
				envN++
				o.Env = T("VERIF_ENV_" + string(rune('A'+envN)))
			}
		}
		if chance(r, p.Aliases/8) {
			o.SetCalled = true
		}
		if chance(r, p.Valid) && (kind == "string" || kind == "sslice" || kind == "sopt") {
			o.Valid = Ts("val", "foo", "a")
		}
		if chance(r, p.Sugg) && kind != "bool" && kind != "incr" {
			o.Sugg = Ts("dev", "devel", "prod", "d%v")
			if chance(r, 0.3) {
				o.Sugg = Ts("dev=", "key=", "prod") // key= suggestions
			}
		}
		if chance(r, p.Sugg/2) && kind != "bool" {
			o.SuggFn = Ts("dyn1", "devfn", "prod", "100%")
		}
		if chance(r, p.Sugg/3) || chance(r, p.Descs/3) {
			o.ArgName = T("thing")
		}
		if chance(r, p.Descs) {
			o.Desc = T(pick(r, []string{"does a thing", "first line\nsecond line", "x", "with (parens) inside"}))
		}
		c.Opts = append(c.Opts, o)
	}
	for _, o := range c.Opts {
		if len(o.Env) > 0 && chance(r, 0.75) {
			var v string
			switch r.Intn(6) {
			case 0:
				v = ""
			case 1:
				v = pick(r, []string{"true", "TRUE", "False", "fAlSe", "yes", "1", "fal\u017fe"})
			case 2:
				v = pick(r, numPool)
			case 3:
				v = pick(r, wordPool)
			default:
				if p.Wild {
					v = pick(r, wildPool)
				} else {
					v = pick(r, wordPool)
				}
			}
			if strings.ContainsRune(v, 0) {
				v = "nul"
			}
			c.Env = append(c.Env, EnvCfg{Name: o.Env, Val: T(v)})
		}
	}
	if chance(r, p.Help) {
		hname := pick(r, []string{"help", "help", "ayuda", "info"})
		al := []string{}
		if !taken["?"] && chance(r, 0.5) {
			al = append(al, "?")
		}
		clash := taken[hname]
		for _, nd := range c.Nodes {
			if FromAtoms(nd.Name) == hname {
				clash = true
			}
		}
		if !clash {
			c = WithHelp(c, hname, al...)
		}
	}
	if p.Descs > 0 && chance(r, 0.3) {
		c.Self = true
		c.Prog = T(pick(r, []string{"tool", "my-prog", "x"}))
	}
	c.Inherit = chance(r, 0.4)
	c.OptsLate = chance(r, 0.3)
	c.EnvLate = chance(r, 0.3)
	c.EnvStep = chance(r, 0.3)
	dup := false // a name declared on both sides of a wrapper: options stay where they are
	onPath := func(x, y int) bool {
		for y != 0 {
			if y == x {
				return true
			}
			y = c.Nodes[y-1].Parent
		}
		return false
	}
	for _, ns := range usedAt {
		for i := range ns {
			for j := range ns {
				if i != j && onPath(ns[i], ns[j]) {
					dup = true
				}
			}
		}
	}
	if len(c.Nodes) > 1 && chance(r, 0.15) && !dup {
		// a program whose top level declares no options of its own: everything lives in the commands
		targets := []int{}
		for i := range c.Nodes[1:] {
			if !c.Nodes[i+1].IsHelp {
				targets = append(targets, i+2)
			}
		}
		for i := range c.Opts {
			if c.Opts[i].Node == 1 && !c.Opts[i].IsHelpOpt && len(targets) > 0 {
				c.Opts[i].Node = targets[r.Intn(len(targets))]
			}
		}
	}
	if chance(r, p.Sets) {
		for k := 1 + r.Intn(3); k > 0; k-- {
			oi := r.Intn(len(c.Opts) + 1) // 0: a name that is not declared
			if oi != 0 && oi == c.HelpOpt() {
				continue
			}
			vals := []Tok{}
			for nv := r.Intn(3); nv > 0; nv-- {
				vals = append(vals, T(genValue(r, p)))
			}
			c.Sets = append(c.Sets, SetCfg{Opt: oi, Vals: vals})
		}
	}
	c.Normalize()
	return c
}

// keysAt - declared names and aliases visible at node n.
func (c *Cfg) keysAt(n int) []string {
	out := []string{}
	for _, oi := range c.TableOpts(n) {
		o := c.Opts[oi-1]
		out = append(out, FromAtoms(o.Name))
		for _, a := range o.Aliases {
			out = append(out, FromAtoms(a))
		}
	}
	return out
}

func (c *Cfg) allKeys() []string {
	out := []string{}
	for _, o := range c.Opts {
		out = append(out, FromAtoms(o.Name))
		for _, a := range o.Aliases {
			out = append(out, FromAtoms(a))
		}
	}
	return out
}

func genValue(r *rand.Rand, p *Profile) string {
	switch r.Intn(10) {
	case 0, 1, 2:
		return pick(r, wordPool)
	case 3, 4, 5:
		return pick(r, numPool)
	case 6:
		return pick(r, []string{"k=v", "k=v=w", "K=x", "a=", "=b", "é=ü", ":8080", "::1", "=", ":", "=:x", "-=x", "-="})
	default:
		if p.Wild {
			return pick(r, wildPool)
		}
		return pick(r, wordPool)
	}
}

// GenArgv - a random command line for the definition.
func GenArgv(r *rand.Rand, p *Profile, c *Cfg) []string {
	n := r.Intn(p.MaxArgv + 1)
	keys := c.allKeys()
	cmds := []string{}
	for _, nd := range c.Nodes[1:] {
		cmds = append(cmds, FromAtoms(nd.Name))
	}
	argv := []string{}
	for len(argv) < n {
		if chance(r, p.Dashes/4) {
			argv = append(argv, "--")
			continue
		}
		if chance(r, p.Unknown/3) {
			argv = append(argv, pick(r, []string{"--unknown", "-u", "--unk=val", "-uw", "--w", "-w=1", "--ünk"}))
			continue
		}
		switch r.Intn(12) {
		case 0, 1, 2, 3, 4: // a declared option in some spelling
			k := pick(r, keys)
			if chance(r, 0.3+p.Abbrev/2) { // abbreviation
				rs := []rune(k)
				k = string(rs[:1+r.Intn(len(rs))])
			}
			d := "--"
			if chance(r, 0.35+p.Short/2) {
				d = "-"
			}
			if k == "-" {
				d = ""
			}
			t := d + k
			if chance(r, 0.35) {
				v := genValue(r, p)

				t += "=" + v
			}
			argv = append(argv, t)
			if chance(r, 0.5) {
				v := genValue(r, p)
				if strings.HasPrefix(v, "-") && chance(r, 0.8) {
					v = "v" + v
				}
				argv = append(argv, v)
			}
		case 5: // bundle of short names
			b := "-"
			for j := 0; j < 2+r.Intn(2); j++ {
				k := pick(r, keys)
				if k == "-" {
					continue
				}
				b += string([]rune(k)[:1])
			}
			if chance(r, 0.2) {
				b += "w" // probably unknown
			}
			if chance(r, 0.3) {
				b += "=" + pick(r, wordPool)
			}
			if b != "-" {
				argv = append(argv, b)
			}
		case 6: // unknown option
			u := pick(r, []string{"--unknown", "-u", "--unk=val", "-uw", "--w", "-w=1", "--ünk", "---", "--=x"})
			argv = append(argv, u)
		case 7:
			if len(cmds) > 0 {
				argv = append(argv, pick(r, cmds))
			} else {
				argv = append(argv, pick(r, wordPool))
			}
		case 8:
			argv = append(argv, pick(r, []string{"--", "-", "", "--", "help"}))
		default:
			v := genValue(r, p)
			if strings.HasPrefix(v, "-") && len(v) > 1 && v != "--" {
				// a wild text that looks like an option: keep it only if its name part is harmless
				v = "w" + v
			}
			argv = append(argv, v)
		}
	}
	if len(argv) > p.MaxArgv {
		argv = argv[:p.MaxArgv]
	}
	return argv
}

// GenCompLine - COMP_LINE words: program name, earlier words, and a last word that is usually a prefix
// of something that could stand there.
func GenCompLine(r *rand.Rand, p *Profile, c *Cfg) []string {
	words := []string{FromAtoms(c.Prog)}
	for _, w := range GenArgv(r, p, c) {
		if strings.ContainsAny(w, " \t\n\f\r") {
			continue // the line is split at white space
		}
		words = append(words, w)
	}
	var last string
	switch r.Intn(8) {
	case 0:
		last = ""
	case 1:
		last = pick(r, []string{"-", "--"})
	case 2, 3:
		k := pick(r, c.allKeys())
		rs := []rune(k)
		last = "--" + string(rs[:r.Intn(len(rs)+1)])
		if chance(r, 0.3) {
			last = "--" + k + "=" + pick(r, []string{"", "d", "de", "p", "v", "x", "k", "dev", "dev=", "pr"})
		}
	case 4, 5:
		cands := []string{"help", "h", "sarg", "run", "l", "dy"}
		for _, nd := range c.Nodes[1:] {
			cands = append(cands, FromAtoms(nd.Name))
		}
		k := pick(r, cands)
		rs := []rune(k)
		last = string(rs[:r.Intn(len(rs)+1)])
	case 6:
		k := pick(r, c.allKeys())
		last = "-" + string([]rune(k)[:1])
	default:
		last = pick(r, wordPool)
	}
	return append(words, last)
}
