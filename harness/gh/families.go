package gh

import "fmt"

// Family - a set of definitions sharing a token alphabet; every argv of length <= L over the alphabet is
// explored for every definition, by TLC on the specification and by the enumerator on the real code.
type Family struct {
	Name string
	Defs []Def
}

func rootNode(um int, ro bool) NodeCfg {
	return NodeCfg{Name: Tok{}, Parent: 0, Um: um, Ro: ro}
}

func cmdNode(name string, parent int, um int, ro bool, fn bool) NodeCfg {
	return NodeCfg{Name: T(name), Parent: parent, Um: um, Ro: ro, Fn: fn}
}

func opt(kind, name string, node int, aliases ...string) OptCfg {
	o := OptCfg{Kind: kind, Name: T(name), Node: node, Aliases: Ts(aliases...), Min: 1, Max: 1}
	switch kind {
	case "string", "sopt":
		o.DefT = T("def")
	case "int", "iopt":
		o.DefT = T("7")
	case "float", "fopt":
		o.DefT = T("7.5")
	}
	return o
}

func multi(kind, name string, node, min, max int, aliases ...string) OptCfg {
	o := opt(kind, name, node, aliases...)
	o.Min, o.Max = min, max
	return o
}

// WithHelp - what HelpCommand(name, Alias(aliases...)) adds: a bool option at the root and a help
// sub-command under every (non-help) node.
func WithHelp(c Cfg, name string, aliases ...string) Cfg {
	h := opt("bool", name, 1, aliases...)
	h.IsHelpOpt = true
	c.Opts = append(c.Opts, h)
	n := len(c.Nodes)
	for i := 0; i < n; i++ {
		c.Nodes = append(c.Nodes, NodeCfg{Name: T(name), Parent: i + 1, Um: 0, Ro: false, Fn: true, IsHelp: true,
			Args: Ts("<topic>"), ArgsD: Ts("")})
	}
	// help nodes suggest their sibling commands
	for i := n; i < len(c.Nodes); i++ {
		p := c.Nodes[i].Parent
		for j, nd := range c.Nodes {
			if nd.Parent == p && j != i {
				c.Nodes[i].Sugg = append(c.Nodes[i].Sugg, nd.Name)
			}
		}
	}
	return c
}

var modeNames = []string{"normal", "bundling", "singledash"}

func lim(tier string, quick, thorough int) int {
	if tier == "thorough" {
		return thorough
	}
	return quick
}

// Families - the configuration families of DESIGN.md Appendix C.
func Families(tier string) []Family {
	fams := []Family{}

	// conserve: every token kind x unknown mode x require-order x a two-level command tree
	{
		f := Family{Name: "conserve"}
		toks := Ts("a", "--", "-", "", "--b", "--s", "--s=v", "--l", "--u", "--u=v", "-bu", "-uw", "-usw", "cmd", "sub", "--=x") // --=x: the (undeclared) lone dash option with a value
		for mode := 0; mode < 3; mode++ {
			for um := 0; um < 3; um++ {
				for _, ro := range []bool{false, true} {
					c := Cfg{Mode: mode}
					c.Nodes = []NodeCfg{rootNode(um, ro), cmdNode("cmd", 1, um, ro, true), cmdNode("sub", 2, um, ro, true)}
					c.Opts = []OptCfg{opt("bool", "b", 1), opt("string", "s", 1), multi("sslice", "l", 1, 1, 2), opt("bool", "c", 2)}
					f.Defs = append(f.Defs, Def{Cfg: c, Tokens: toks, L: lim(tier, 3, 4)})
				}
			}
		}
		fams = append(fams, f)
	}

	// scalar-s: string / optional string / flags (C01, C04, C06)
	{
		f := Family{Name: "scalar-s"}
		toks := Ts("--s", "--s=x", "--s=-x", "--s=a=b", "--s=cmd", "--str", "--so", "--so=x", "--b", "--nb", "--v", "x", "-x", "cmd", "--",
			"-s=:x", "--s=:x", "-s==x") // attached values that start with a separator character
		for mode := 0; mode < 3; mode++ {
			c := Cfg{Mode: mode}
			c.Nodes = []NodeCfg{rootNode(0, false), cmdNode("cmd", 1, 0, false, true)}
			nb := opt("bool", "nb", 1)
			nb.DefB = true
			v := opt("incr", "v", 1)
			v.DefI = 1
			c.Opts = []OptCfg{opt("string", "s", 1, "str"), opt("sopt", "so", 1), opt("bool", "b", 1), nb, v}
			f.Defs = append(f.Defs, Def{Cfg: c, Tokens: toks, L: lim(tier, 3, 4)})
			if mode == 1 {
				// flags bundled with an undeclared letter that is passed through: the declared letters around it count
				cp := Cfg{Mode: 1}
				cp.Nodes = []NodeCfg{rootNode(2, false)}
				cp.Opts = []OptCfg{v, opt("bool", "b", 1), nb}
				f.Defs = append(f.Defs, Def{Cfg: cp, Tokens: Ts("-vuv", "-ub", "-bu", "-vunb", "-v", "--b", "x"), L: lim(tier, 3, 4)})
			}
			if mode != 1 {
				// map keys are lowered on request: the texts of scalar options are not keys, whatever they look like
				cl := Cfg{Mode: mode, Lower: true}
				cl.Nodes = []NodeCfg{rootNode(0, false)}
				cl.Opts = []OptCfg{opt("string", "s", 1, "str"), opt("sopt", "so", 1), opt("smap", "m", 1)}
				f.Defs = append(f.Defs, Def{Cfg: cl, Tokens: Ts("--s=K=V", "--so=K=V", "--s", "--so", "--str", "K=V", "--m=K=V", "--m", "x"), L: lim(tier, 3, 4)})
			}
			if mode < 2 {
				// what was given before a wrapper command or the help command is still reported by the top-level object
				cw := Cfg{Mode: mode}
				cw.Nodes = []NodeCfg{rootNode(0, false), cmdNode("w", 1, 2, false, true)}
				cw.Nodes[1].Unset = true
				cw.Opts = []OptCfg{opt("string", "s", 1, "str"), opt("sopt", "so", 1), opt("bool", "b", 1), v}
				cw = WithHelp(cw, "help")
				f.Defs = append(f.Defs, Def{Cfg: cw, Tokens: Ts("--s=x", "--s", "--so", "--b", "--v", "w", "help", "x"), L: lim(tier, 3, 4)})
			}
		}
		fams = append(fams, f)
	}
	// scalar-n: int / float, mandatory and optional value (C01)
	{
		f := Family{Name: "scalar-n"}
		toks := Ts("--i", "--i=1", "--i=-1", "--i=1x", "--i=1..3", "--i=010", "--io", "--io=2", "--f", "--f=0.1", "--f=x", "--fo", "1", "-1", "1x", "1.5", "1..3", "0x10", "--b", "--")
		for mode := 0; mode < 3; mode++ {
			c := Cfg{Mode: mode}
			c.Nodes = []NodeCfg{rootNode(0, false)}
			c.Opts = []OptCfg{opt("int", "i", 1), opt("iopt", "io", 1), opt("float", "f", 1), opt("fopt", "fo", 1), opt("bool", "b", 1)}
			f.Defs = append(f.Defs, Def{Cfg: c, Tokens: toks, L: lim(tier, 3, 4)})
		}
		fams = append(fams, f)
	}
	// multi-*: slices and maps over the (min,max) grid (C02, C04)
	{
		grid := [][2]int{{1, 1}, {1, 2}, {1, 3}, {2, 2}, {2, 3}, {3, 3}}
		type mk struct {
			name, kind string
			toks       []Tok
		}
		for _, m := range []mk{
			{"multi-ss", "sslice", Ts("--l", "--l=v", "v", "w", "--b", "--", "-", "cmd", "-x", "", "-lb", "-bl", "-=x")}, // -=x is not an option token: it is a value; bundles: a letter still taking values looks ahead at the next bundle
			{"multi-is", "islice", Ts("--l", "--l=1", "--l=1..3", "1", "2", "1.5", "1..3", "3..1", "x", "--b", "--", "99999999999999999999", "010", "-1")},
			{"multi-fs", "fslice", Ts("--l", "--l=0.1", "--l=x", "1.5", "2", "1e-320", "x", "--b", "--", "-2.5")},
			{"multi-sm", "smap", Ts("--l", "--l=k=v", "k=v", "k=w=z", "K=v", "j=1", "x", "--b", "--", "-=x", "=v")}, // =v: an entry with an empty key
		} {
			f := Family{Name: m.name}
			for gi, g := range grid {
				for mode := 0; mode < 3; mode++ {
					if mode != 0 && gi != 1 {
						continue
					}
					c := Cfg{Mode: mode, Lower: m.kind == "smap" && gi == 2}
					c.Nodes = []NodeCfg{rootNode(0, false), cmdNode("cmd", 1, 0, false, true)}
					c.Opts = []OptCfg{multi(m.kind, "l", 1, g[0], g[1]), opt("bool", "b", 1)}
					f.Defs = append(f.Defs, Def{Cfg: c, Tokens: m.toks, L: lim(tier, 3, 5)})
					if mode == 0 && gi == 0 {
						// "as many as there are": the maximum is the largest int
						cu := c
						cu.Opts = []OptCfg{multi(m.kind, "l", 1, 1, Unlimited), opt("bool", "b", 1)}
						f.Defs = append(f.Defs, Def{Cfg: cu, Tokens: m.toks, L: lim(tier, 3, 4)})
					}
					if mode == 0 && gi < 2 {
						// GetEnv on a multi-value option is a no-op, whatever the variable holds
						ce := c
						ce.Opts = []OptCfg{multi(m.kind, "l", 1, g[0], g[1]), opt("bool", "b", 1)}
						ce.Opts[0].Env = T("VERIF_ENV_ML")
						ce.Env = []EnvCfg{{Name: T("VERIF_ENV_ML"), Val: map[string]Tok{"sslice": T("fromenv"), "islice": T("7"), "fslice": T("0.5"), "smap": T("envkey=v")}[m.kind]}}
						f.Defs = append(f.Defs, Def{Cfg: ce, Tokens: m.toks, L: lim(tier, 2, 3)})
					}
				}
			}
			fams = append(fams, f)
		}
	}
	// late-wrapper: the options of every level are declared after its commands (with and without a help command); a
	// wrapper (UnsetOptions) has options of its own - one required, one bound to the environment - and a sub-command that
	// must see them (C05, C10, C11, C12)
	{
		f := Family{Name: "late-wrapper"}
		toks := Ts("w", "s", "p", "q", "--verb", "--ver", "--verbosity=x", "--so", "--tok=y", "x")
		for mode := 0; mode < 2; mode++ {
			for _, help := range []bool{false, true} {
				c := Cfg{Mode: mode, OptsLate: true}
				// q: a plain command created before the top level's options exist; p: the command whose creation hands them down
				c.Nodes = []NodeCfg{rootNode(0, false), cmdNode("q", 1, 0, false, true), cmdNode("w", 1, 0, false, true), cmdNode("s", 3, 0, false, true), cmdNode("p", 1, 0, false, true)}
				c.Nodes[2].Unset = true
				vb := opt("string", "verbosity", 3)
				vb.Req = true
				tk := opt("string", "tok", 3)
				tk.Env = T("VERIF_ENV_LW")
				c.Env = []EnvCfg{{Name: T("VERIF_ENV_LW"), Val: T("fromenv")}}
				c.Opts = []OptCfg{opt("bool", "verbose", 1, "v"), vb, opt("bool", "ver", 3), tk, opt("bool", "so", 4)}
				if help {
					c = WithHelp(c, "help")
				}
				f.Defs = append(f.Defs, Def{Cfg: c, Tokens: toks, L: lim(tier, 4, 5), Disp: true})
			}
		}
		fams = append(fams, f)
	}
	// deep-ro: require-order set only on a command at depth 2; the levels above collect text and pass unknown options (C09, C03)
	{
		f := Family{Name: "deep-ro"}
		toks := Ts("cmd", "sub", "x", "--u", "--b", "--c", "--t", "--", "y")
		for mode := 0; mode < 2; mode++ {
			for _, um := range []int{0, 2} {
				c := Cfg{Mode: mode}
				c.Nodes = []NodeCfg{rootNode(um, false), cmdNode("cmd", 1, um, false, true), cmdNode("sub", 2, um, true, true)}
				c.Opts = []OptCfg{opt("bool", "b", 1), opt("bool", "c", 2), opt("bool", "t", 3)}
				f.Defs = append(f.Defs, Def{Cfg: c, Tokens: toks, L: lim(tier, 4, 5)})
			}
		}
		fams = append(fams, f)
	}
	// term: `--` at every position after every context (C04, C09)
	{
		f := Family{Name: "term"}
		toks := Ts("--", "a", "--b", "--s", "--s=v", "--l", "--l=v", "--so", "cmd", "--c", "--u", "", "-=x")
		for _, um := range []int{0, 2} {
			for _, ro := range []bool{false, true} {
				for mode := 0; mode < 3; mode++ {
					if mode != 0 && (um != 2 || ro) {
						continue
					}
					c := Cfg{Mode: mode}
					c.Nodes = []NodeCfg{rootNode(um, ro), cmdNode("cmd", 1, um, ro, true)}
					c.Opts = []OptCfg{opt("bool", "b", 1), opt("string", "s", 1), multi("sslice", "l", 1, 1, 3), opt("sopt", "so", 1), opt("bool", "c", 2)}
					f.Defs = append(f.Defs, Def{Cfg: c, Tokens: toks, L: lim(tier, 3, 5)})
				}
			}
		}
		// Bundling: a typed list letter followed by a valued letter in one bundle; the word that ends the list's intake is
		// the other letter's value, and the `--` behind it is the terminator (also for an optional-value letter that follows a valued one)
		{
			c := Cfg{Mode: 1}
			c.Nodes = []NodeCfg{rootNode(2, false)}
			c.Opts = []OptCfg{multi("islice", "n", 1, 1, 2), opt("string", "s", 1), opt("bool", "b", 1), multi("smap", "m", 1, 1, 2), opt("sopt", "o", 1)}
			f.Defs = append(f.Defs, Def{Cfg: c, Tokens: Ts("-ns", "-mo", "-so", "1", "foo", "--", "--b"), L: 5})
		}
		fams = append(fams, f)
	}
	// abbrev: names that prefix each other, aliases, inherited names inside a command (C05)
	{
		f := Family{Name: "abbrev"}
		toks := Ts("--v", "--ve", "--ver", "--verb", "--verbose", "--vers", "--version", "--veri", "--verify",
			"-v", "-ve", "-ver", "--ver=x", "--ve=x", "--p", "cmd", "x")
		for mode := 0; mode < 4; mode++ {
			// the fourth definition: Normal mode with require-order (an ambiguous prefix is an error, not a stop point)
			ro := mode == 3
			c := Cfg{Mode: mode % 3}
			c.Nodes = []NodeCfg{rootNode(0, ro), cmdNode("cmd", 1, 0, ro, true)}
			// the same spelling can resolve differently before and after the command token:
			// --p is profile at the root and ambiguous inside cmd; --verb is verbose at the root and the exact name verb inside cmd
			c.Opts = []OptCfg{opt("bool", "v", 1), opt("string", "ver", 1), opt("incr", "verbose", 1, "version"), opt("bool", "profile", 1),
				opt("bool", "verify", 2), opt("bool", "password", 2), opt("bool", "verb", 2)}
			f.Defs = append(f.Defs, Def{Cfg: c, Tokens: toks, L: lim(tier, 3, 4)})
			if mode < 2 {
				// names with multi-byte characters abbreviated at every character boundary
				cu := Cfg{Mode: mode}
				cu.Nodes = []NodeCfg{rootNode(2, false)}
				// é and è are names of their own that share their first byte: each one is an exact name, never a prefix
				cu.Opts = []OptCfg{opt("string", "größe", 1), opt("bool", "maße", 1), opt("bool", "maßstab", 1), opt("bool", "日本語", 1),
					opt("bool", "é", 1), opt("bool", "è", 1)}
				f.Defs = append(f.Defs, Def{Cfg: cu, Tokens: Ts("--grö", "--größ", "--größe=x", "--g", "--maß", "--maße", "--ma", "--日", "--日本", "-grö", "x", "-é", "-éè"), L: lim(tier, 3, 3)})
			}
			if mode < 2 {
				// a wrapper (UnsetOptions) sees neither the names nor the aliases of the options above it: -q / --q / --qu mean
				// its own query (or are ambiguous with quick), never the top level's quiet|q
				for variant := 0; variant < 2; variant++ {
					cw := Cfg{Mode: mode}
					cw.Nodes = []NodeCfg{rootNode(0, false), cmdNode("w", 1, 0, false, true), cmdNode("s", 2, 0, false, true)}
					cw.Nodes[1].Unset = true
					cw.Opts = []OptCfg{opt("bool", "quiet", 1, "q", "qq"), opt("string", "query", 2)}
					if variant == 1 {
						cw.Opts = append(cw.Opts, opt("bool", "quick", 2, "qk"))
					}
					f.Defs = append(f.Defs, Def{Cfg: cw, Tokens: Ts("w", "s", "-q", "--q", "--qu", "--qq", "--quiet", "--query=x", "x"), L: lim(tier, 3, 4)})
				}
			}
			if mode == 0 {
				// a two-pass program: an earlier Parse visited cmd before the help option existed; afterwards --hel / --he
				// resolve against the names the level has now
				ch := WithHelp(c, "help", "usage")
				f.Defs = append(f.Defs, Def{Cfg: ch, Tokens: Ts("cmd", "--hel", "--he", "--ver", "--verb", "x"), L: 3,
					Pres: [][]Tok{Ts("cmd", "--hel"), Ts("cmd", "--ver", "--he")}})
			}
		}
		fams = append(fams, f)
	}
	// alias: each of the 12 kinds with two aliases (C06)
	{
		f := Family{Name: "alias"}
		toks := Ts("--opt", "--o", "--alt", "-o", "--opt=1", "--alt=k=v", "--al", "1", "k=v", "x", "--other", "--")
		for _, kind := range AllKinds {
			for mode := 0; mode < 3; mode++ {
				if mode != 0 && kind != "string" && kind != "bool" {
					continue
				}
				c := Cfg{Mode: mode}
				c.Nodes = []NodeCfg{rootNode(0, false)}
				o := multi(kind, "opt", 1, 1, 2, "o", "alt")
				o.UseVar = mode == 0
				c.Opts = []OptCfg{o, opt("bool", "other", 1)}
				f.Defs = append(f.Defs, Def{Cfg: c, Tokens: toks, L: lim(tier, 3, 4)})
			}
		}
		// SetCalled: an option marked as called by the program itself
		for _, kind := range []string{"bool", "string", "sslice"} {
			c := Cfg{Mode: 0}
			c.Nodes = []NodeCfg{rootNode(0, false)}
			o := multi(kind, "opt", 1, 1, 2, "o", "alt")
			o.SetCalled = true
			c.Opts = []OptCfg{o, opt("bool", "other", 1)}
			f.Defs = append(f.Defs, Def{Cfg: c, Tokens: Ts("--opt", "--alt=x", "--other", "x"), L: 2})
		}
		// history: what a Parse establishes does not depend on an earlier Parse on the same object (called by SetCalled,
		// through the environment, or on the command line)
		for variant := 0; variant < 2; variant++ {
			c := Cfg{Mode: 0}
			c.Nodes = []NodeCfg{rootNode(0, false), cmdNode("cmd", 1, 0, false, true)}
			o := opt("string", "opt", 1, "o", "alt")
			if variant == 0 {
				o.SetCalled = true
			} else {
				o.Env = T("VERIF_ENV_AL")
				c.Env = []EnvCfg{{Name: T("VERIF_ENV_AL"), Val: T("fromenv")}}
			}
			c.Opts = []OptCfg{o, opt("bool", "other", 1, "ot"), opt("bool", "co", 2)}
			f.Defs = append(f.Defs, Def{Cfg: c, Tokens: Ts("--opt=x", "--alt=y", "--ot", "cmd", "--co", "x"), L: 2,
				Pres: [][]Tok{{}, Ts("--other"), Ts("--alt=z", "cmd", "--co")}})
			// a two-pass program: the earlier Parse may also have happened before the help option was declared; an
			// abbreviation that meant nothing then (--hel) means the help option now
			ch := WithHelp(c, "help")
			f.Defs = append(f.Defs, Def{Cfg: ch, Tokens: Ts("--opt=x", "--ot", "cmd", "--co", "--hel", "x"), L: 3,
				Pres: [][]Tok{{}, Ts("cmd", "--hel"), Ts("--hel", "cmd", "--co")}})
		}
		// Called / CalledAs / Value read through the top-level object after a wrapper or the help command was selected
		for mode := 0; mode < 2; mode++ {
			c := Cfg{Mode: mode}
			c.Nodes = []NodeCfg{rootNode(2, false), cmdNode("w", 1, 2, false, true), cmdNode("plain", 1, 2, false, true)}
			c.Nodes[1].Unset = true
			c.Opts = []OptCfg{opt("bool", "opt", 1, "o", "alt"), opt("string", "other", 1), opt("bool", "wo", 2)}
			c = WithHelp(c, "help")
			f.Defs = append(f.Defs, Def{Cfg: c, Tokens: Ts("--opt", "--alt", "--other=x", "w", "plain", "help", "--wo", "x"), L: lim(tier, 3, 4)})
		}
		// bundles: every letter of a bundle is given, also when an earlier letter of the same bundle looked ahead at the
		// next token (an optional-value or multi-value letter followed by another bundle)
		{
			c := Cfg{Mode: 1}
			c.Nodes = []NodeCfg{rootNode(0, false)}
			y := opt("incr", "y", 1, "yy")
			c.Opts = []OptCfg{opt("sopt", "o", 1, "p"), opt("bool", "b", 1, "bb"), opt("bool", "x", 1), y, multi("sslice", "l", 1, 1, 2, "ll")}
			f.Defs = append(f.Defs, Def{Cfg: c, Tokens: Ts("-ob", "-pb", "-xy", "-xyy", "-lb", "-bl", "one", "-b", "--bb"), L: lim(tier, 3, 4)})
		}
		// a wrapper (UnsetOptions) declares options under the very names and aliases the top level uses: each level's
		// spellings mean that level's options, also when the same spelling was given before the command token
		for mode := 0; mode < 2; mode++ {
			c := Cfg{Mode: mode}
			c.Nodes = []NodeCfg{rootNode(0, false), cmdNode("w", 1, 0, false, true), cmdNode("s", 2, 0, false, true)}
			c.Nodes[1].Unset = true
			wl := opt("string", "level", 2, "l")
			wl.DefT = T("7")
			c.Opts = []OptCfg{opt("string", "level", 1, "l"), opt("bool", "verbose", 1, "v"), wl, opt("bool", "version", 2, "v")}
			f.Defs = append(f.Defs, Def{Cfg: c, Tokens: Ts("-l", "1", "--level=2", "-v", "--ver", "w", "s", "x"), L: lim(tier, 4, 5)})
		}
		// Called / CalledAs through the environment: only true/false (any case) count for a bool
		for _, ev := range []string{"1", "t", "True", "0", "FALSE", "yes"} {
			for _, defb := range []bool{false, true} {
				c := Cfg{Mode: 0}
				c.Nodes = []NodeCfg{rootNode(0, false)}
				o := opt("bool", "opt", 1, "o", "alt")
				o.DefB = defb
				o.Env = T("VERIF_ENV_AL")
				c.Env = []EnvCfg{{Name: T("VERIF_ENV_AL"), Val: T(ev)}}
				c.Opts = []OptCfg{o, opt("bool", "other", 1)}
				f.Defs = append(f.Defs, Def{Cfg: c, Tokens: Ts("--opt", "--alt", "--other", "x"), L: 2})
			}
		}
		fams = append(fams, f)
	}
	// modes: single-dash tokens of every shape, multibyte letters, before and after a command token; the mode may be set
	// before or after the commands are declared (C07)
	{
		f := Family{Name: "modes"}
		toks := Ts("-xy", "-xyz", "-xys", "-xys=v", "-s=v", "-sv", "-é", "-üv", "-xq", "--xy", "--s=v", "v", "-x", "-s", "-sx", "-s\xffv", "cmd", "-s=:v", "-s==v", "-s=")
		for mode := 0; mode < 3; mode++ {
			for _, um := range []int{0, 2} {
				for _, late := range []bool{false, true} {
					if late && um != 0 {
						continue
					}
					c := Cfg{Mode: mode, Late: late}
					c.Nodes = []NodeCfg{rootNode(um, false), cmdNode("cmd", 1, um, false, true)}
					c.Opts = []OptCfg{opt("bool", "x", 1), opt("bool", "y", 1), opt("incr", "z", 1), opt("string", "s", 1, "sv"),
						opt("bool", "é", 1), opt("string", "ü", 1)}
					f.Defs = append(f.Defs, Def{Cfg: c, Tokens: toks, L: lim(tier, 3, 4)})
				}
			}
			// the lone dash as an option that takes a value: `--=v` is a double-dash token in every mode
			cd := Cfg{Mode: mode}
			cd.Nodes = []NodeCfg{rootNode(2, false)}
			cd.Opts = []OptCfg{opt("string", "-", 1), opt("bool", "x", 1)}
			f.Defs = append(f.Defs, Def{Cfg: cd, Tokens: Ts("-", "--=v", "-=v", "--=", "v", "-x", "--"), L: lim(tier, 3, 4)})
		}
		fams = append(fams, f)
	}
	// conserve-n: what ends the intake of typed multi-value options stays in remaining (C03)
	{
		f := Family{Name: "conserve-n"}
		// -5, -2.5, --u=k=v: undeclared option tokens that would also pass the type check of the value intake
		toks := Ts("--n", "--f", "--m", "1", "1.5", "k=v", "a", "", "--", "--b", "cmd", "-5", "-2.5", "--u=k=v")
		for mode := 0; mode < 3; mode++ {
			for _, um := range []int{0, 1, 2} {
				if um == 1 && mode != 0 {
					continue
				}
				c := Cfg{Mode: mode, Late: mode == 1}
				c.Nodes = []NodeCfg{rootNode(um, false), cmdNode("cmd", 1, um, false, true)}
				c.Opts = []OptCfg{opt("bool", "b", 1), multi("islice", "n", 1, 1, 2), multi("fslice", "f", 1, 1, 2), multi("smap", "m", 1, 1, 2)}
				f.Defs = append(f.Defs, Def{Cfg: c, Tokens: toks, L: lim(tier, 3, 4)})
				if mode == 0 {
					// the same under require-order: what ends a typed intake is looked at like any other token - a command
					// name still selects the command, text is the stop point
					cr := Cfg{Mode: 0}
					cr.Nodes = []NodeCfg{rootNode(um, true), cmdNode("cmd", 1, um, true, true)}
					cr.Opts = []OptCfg{opt("bool", "b", 1), multi("islice", "n", 1, 1, 2), multi("fslice", "f", 1, 1, 2), multi("smap", "m", 1, 1, 2), opt("bool", "c", 2)}
					f.Defs = append(f.Defs, Def{Cfg: cr, Tokens: Ts("--n", "--f=1.5", "--m", "1", "k=v", "a", "--b", "cmd", "--c", "--n=1"), L: lim(tier, 4, 5)})
				}
			}
		}
		fams = append(fams, f)
	}
	// wrapper: unknown options before / after command tokens, wrapper commands (C08)
	{
		f := Family{Name: "wrapper"}
		toks := Ts("--b", "--u", "-u", "--u=v", "w", "sub", "--c", "a", "-bu", "n", "--")
		for mode := 0; mode < 3; mode++ {
			for um := 0; um < 3; um++ {
				if mode != 0 && um == 1 {
					continue
				}
				c := Cfg{Mode: mode}
				c.Nodes = []NodeCfg{rootNode(um, false), cmdNode("w", 1, 2, false, true), cmdNode("sub", 2, 2, false, true), cmdNode("n", 1, um, false, true)}
				c.Nodes[1].Unset = true
				c.Opts = []OptCfg{opt("bool", "b", 1), opt("bool", "c", 2)}
				f.Defs = append(f.Defs, Def{Cfg: c, Tokens: toks, L: lim(tier, 3, 4)})
				if mode == 0 {
					// nested wrappers, the tree declared first and UnsetOptions called afterwards, outermost first
					cn := Cfg{Mode: 0, UnsetLate: true}
					cn.Nodes = []NodeCfg{rootNode(um, false), cmdNode("w", 1, um, false, true), cmdNode("sub", 2, um, false, true)}
					cn.Nodes[1].Unset, cn.Nodes[2].Unset = true, true
					cn.Opts = []OptCfg{opt("bool", "b", 1), opt("string", "c", 1)}
					f.Defs = append(f.Defs, Def{Cfg: cn, Tokens: Ts("--b", "--c=x", "--c", "w", "sub", "x", "--u"), L: lim(tier, 4, 4)})
				}
				if mode == 0 {
					// the same with the help option / command declared: asking for help does not excuse an unknown option
					ch := WithHelp(c, "help")
					f.Defs = append(f.Defs, Def{Cfg: ch, Tokens: Ts("--b", "--u", "-u", "w", "sub", "--c", "a", "--help", "help"), L: lim(tier, 3, 4)})
				}
			}
		}
		fams = append(fams, f)
	}

	// tree: command trees with functions, own options, wrappers, help (C10)
	{
		f := Family{Name: "tree"}
		toks := Ts("a", "b", "s", "w", "--r", "--r=a", "--l", "--ao", "--so", "--", "x", "7", "help", "--help", "--u")
		for mode := 0; mode < 3; mode += 2 {
			for variant := 0; variant < 3; variant++ {
				c := Cfg{Mode: mode}
				switch variant {
				case 0: // root fn; a(fn, own ao) -> s(fn, own so); b without fn; help
					c.Nodes = []NodeCfg{rootNode(0, false), cmdNode("a", 1, 0, false, true), cmdNode("s", 2, 0, false, true), cmdNode("b", 1, 0, false, false)}
					c.Nodes[0].Fn = true
					c.Nodes[0].ReqArgs = []string{"s", "i"}
					c.Nodes[1].ReqArgs = []string{"f", "s", "s"}
					c.Nodes[1].Args = Ts("<num>", "<name>")
					c.Nodes[1].ArgsD = Ts("a number", "")
					c.Opts = []OptCfg{opt("string", "r", 1), opt("bool", "ao", 2), opt("bool", "so", 3), multi("sslice", "l", 1, 1, 3)}
					c = WithHelp(c, "help")
				case 1: // root without fn; a without fn -> s fn; w wrapper; no help
					// ... and a sub-command b under the wrapper, which must see the wrapper's own option so (but not the root's r)
					c.Nodes = []NodeCfg{rootNode(2, false), cmdNode("a", 1, 2, false, false), cmdNode("s", 2, 2, false, true), cmdNode("w", 1, 2, false, true),
						cmdNode("b", 4, 2, false, true)}
					c.Nodes[3].Unset = true
					c.Opts = []OptCfg{opt("string", "r", 1), opt("bool", "ao", 2), opt("bool", "so", 4)}
				case 2: // require-order root, commands after the stop point must not be selected; b without fn but with two children
					c.Nodes = []NodeCfg{rootNode(0, true), cmdNode("a", 1, 0, true, true), cmdNode("b", 1, 0, true, false), cmdNode("s", 3, 0, true, true), cmdNode("w", 3, 0, true, true)}
					c.Nodes[0].Fn = true
					c.Opts = []OptCfg{opt("string", "r", 1), opt("bool", "ao", 2), opt("bool", "so", 4)}
					c = WithHelp(c, "help")
				}
				f.Defs = append(f.Defs, Def{Cfg: c, Tokens: toks, L: lim(tier, 3, 4), Disp: true})
			}
		}
		fams = append(fams, f)
	}
	// required: required options at every level, custom messages, env binding, help in every form (C11)
	{
		f := Family{Name: "required"}
		toks := Ts("--rq", "--rq=v", "--r", "--ar", "--alt", "a", "s", "--help", "-h", "--he", "help", "x")
		for variant := 0; variant < 4; variant++ {
			c := Cfg{Mode: 0}
			c.Nodes = []NodeCfg{rootNode(0, false), cmdNode("a", 1, 0, false, true), cmdNode("s", 2, 0, false, true)}
			c.Nodes[0].Fn = true
			rq := opt("string", "rq", 1)
			rq.Req = true
			ar := opt("bool", "ar", 2, "alt")
			ar.Req = true
			switch variant {
			case 1:
				rq.HasMsg, rq.ReqMsg = true, T("rq is needed: 100% (%s, %d)")
				rq.ModLast = true // the message is handed over in a buffer the program reuses right away
				ar.HasMsg, ar.ReqMsg = true, T("give --ar")
			case 2:
				rq.Env = T("VERIF_ENV_RQ")
				c.Env = []EnvCfg{{Name: T("VERIF_ENV_RQ"), Val: T("fromenv")}}
			case 3:
				rq.Env = T("VERIF_ENV_RQ")
				c.Env = []EnvCfg{{Name: T("VERIF_ENV_RQ"), Val: T("")}}
				second := opt("int", "zz", 1)
				second.Req = true
				c.Opts = append(c.Opts, second)
			}
			c.Opts = append(c.Opts, rq, ar)
			c = WithHelp(c, "help", "h")
			if variant == 0 {
				// the program preloads the required options with SetValue: that does not count as giving them
				for oi := range c.Opts {
					if c.Opts[oi].Req && c.Opts[oi].Kind == "string" {
						c.Sets = append(c.Sets, SetCfg{Opt: oi + 1, Vals: Ts("preloaded")})
					}
				}
			}
			d := Def{Cfg: c, Tokens: toks, L: lim(tier, 3, 4), Disp: true}
			if variant == 0 || variant == 3 {
				// a program that parsed, dispatched and printed help while only its commands were declared, and again later:
				// the required options declared since are enforced all the same
				cl := c
				cl.OptsLate = true
				cl.Sets = nil
				f.Defs = append(f.Defs, Def{Cfg: cl, Tokens: Ts("--rq=v", "--ar", "a", "s", "--help", "x"), L: 3, Disp: true,
					Pres: [][]Tok{Ts("a"), Ts("a", "s"), {}}})
			}
			if variant == 2 {
				// history: the environment satisfies the required option however often Parse runs
				d.Pres = [][]Tok{{}, Ts("x"), Ts("a", "--ar")}
			}
			f.Defs = append(f.Defs, d)
		}
		fams = append(fams, f)
	}
	// env: definition-time environment variables for every supported kind (C12)
	{
		f := Family{Name: "env"}
		type ek struct {
			kind            string
			valid, invalid  string
			mixed, deflt    string
			cliVal, cliVal2 string
		}
		for _, k := range []ek{
			{"bool", "true", "yes", "TrUe", "false", "", ""},
			{"string", "fromenv", "", "MiXed", "def", "x", "y"},
			{"int", "5", "5x", "+5", "7", "3", "4"},
			{"float", "2.5", "x", "2.5E0", "7.5", "1.5", "3"},
			// numerals that have the right shape and are out of range are invalid text all the same
			{"float", "-0.5", "1e999", "1e-999", "7.5", "1.5", "3"},
			{"int", "-5", "99999999999999999999", "007", "7", "3", "4"},
			{"sopt", "fromenv", "", "MiXed", "def", "x", "y"},
			{"iopt", "5", "5x", "+5", "7", "3", "4"},
			{"fopt", "2.5", "x", "2.5E0", "7.5", "1.5", "3"},
			{"incr", "5", "x", "5", "0", "", ""},
			{"sslice", "a", "", "A", "", "x", "y"},
		} {
			toks := Ts("--o", "--al", "--ot", "z")
			if k.cliVal != "" {
				toks = append(toks, T("--o="+k.cliVal), T(k.cliVal), T(k.cliVal2))
			} else {
				toks = append(toks, T("--o=false"), T("--o=true"))
			}
			// for a bool only the words true / false (any case) count; what strconv.ParseBool would also accept does not
			for ei, ev := range []string{"<unset>", "", k.valid, k.invalid, k.mixed, k.deflt, "false", "FALSE", "1", "0", "t", "F", "fal\u017fe", "\u212aelvin"} {
				if ei >= 6 && k.kind != "bool" {
					continue
				}
				for _, defb := range []bool{false, true} {
					if defb && k.kind != "bool" {
						continue
					}
					c := Cfg{Mode: 0, EnvLate: ei%2 == 1} // odd ones: the GetEnv modifier is created before the variable exists
					c.EnvStep = ei%3 == 2                 // the variable appears only when its option is about to be declared
					c.Nodes = []NodeCfg{rootNode(0, false)}
					o := multi(k.kind, "o", 1, 1, 2, "al")
					o.DefB = defb
					o.Env = T("VERIF_ENV_O")
					other := opt("bool", "ot", 1)
					c.Opts = []OptCfg{o, other}
					if ev != "<unset>" {
						c.Env = []EnvCfg{{Name: T("VERIF_ENV_O"), Val: T(ev)}}
					}
					if c.EnvStep {
						// a second bound option, declared later: its variable does not exist yet when the first one is read
						c.Opts[1].Env = T("VERIF_ENV_OT")
						c.Env = append(c.Env, EnvCfg{Name: T("VERIF_ENV_OT"), Val: T("true")})
					}
					if ei == 2 && !defb {
						// the option is also marked as called by the program, before the environment is looked at
						cs := c
						cs.Opts = []OptCfg{o, other}
						cs.Opts[0].SetCalled, cs.Opts[0].ModLast = true, true
						f.Defs = append(f.Defs, Def{Cfg: cs, Tokens: toks, L: 2})
					}
					d := Def{Cfg: c, Tokens: toks, L: lim(tier, 2, 3)}
					if ei == 2 {
						// history: the environment value still counts as "called" when Parse runs again on the same object
						d.Pres = [][]Tok{{}, Ts("--ot")}
					}
					f.Defs = append(f.Defs, d)
				}
			}
		}
		fams = append(fams, f)
	}

	// complete: COMP_LINE words over a tree with aliases, suggested / valid values, static suggestions, help (C17)
	{
		f := Family{Name: "complete"}
		toks := Ts("--f", "--fl", "--flag", "--p", "--profile", "--profile=", "--profile=p", "--level=", "--level=d", "-", "--",
			"l", "lo", "log", "s", "show", "h", "help", "", "--lo", "x", "-fs", "-l", "-l=", "-l=d", "key=va", "a:b") // plain words with the characters bash breaks words at
		for mode := 0; mode < 3; mode++ {
			for variant := 0; variant < 2; variant++ {
				c := Cfg{Mode: mode}
				c.Nodes = []NodeCfg{rootNode(0, false), cmdNode("log", 1, 0, false, true), cmdNode("show", 1, 0, false, true), cmdNode("sub", 2, 0, false, true)}
				c.Nodes[0].Fn = true
				c.Nodes[0].Sugg = Ts("arg1", "sarg", "a%d")
				c.Nodes[1].Sugg = Ts("sub-log", "lower")
				profile := opt("string", "profile", 1)
				profile.Sugg = Ts("dev", "production", "staging", "d%v")
				level := opt("string", "level", 1, "l")
				level.Valid = Ts("debug", "info")
				if variant == 1 {
					level.SuggFn = Ts("dynamic", "debug2", "100%")
				}
				c.Opts = []OptCfg{opt("bool", "flag", 1), opt("bool", "fleg", 1), profile, level, opt("bool", "lo", 2), opt("string", "s", 3), opt("bool", "f", 3)}
				if variant == 1 {
					c.Nodes[0].Ro = true
					c.Nodes[1].Ro = true
					c.Nodes[2].Ro = true
					c.Nodes[3].Ro = true
					c.Nodes[1].DynFn = true
					c.Nodes[1].DynOut = Ts("dyn1", "zz")
					c.Opts[0].Kind = "incr"
					c.Opts = append(c.Opts, opt("bool", "Flag", 1), opt("bool", "FLEG", 1))
					c.Nodes = append(c.Nodes, cmdNode("Log", 1, 0, true, true), cmdNode("SHOW", 1, 0, true, true))
					c.Prog = T("log") // the program is invoked under the name of one of its commands
				}
				c = WithHelp(c, "help", "?")
				f.Defs = append(f.Defs, Def{Cfg: c, Tokens: toks, L: lim(tier, 2, 3), Comp: true})
				if variant == 0 {
					// the help command of every level offers that level's commands as topics (none at a leaf)
					f.Defs = append(f.Defs, Def{Cfg: c, Tokens: Ts("log", "show", "sub", "help", "h", "s", "l", ""), L: lim(tier, 3, 4), Comp: true})
				}
			}
		}
		fams = append(fams, f)
	}

	// complete-eq: suggested values that themselves end in `=` (key= suggestions of a map option), next to options whose
	// names are prefixes of each other (C17, C19, C20)
	{
		f := Family{Name: "complete-eq"}
		toks := Ts("--label=", "--label=r", "--label=z", "--label=region=", "--label=p", "--la=", "--la=k", "--l=", "--l=x", "--lab", "--l", "x", "")
		for mode := 0; mode < 2; mode++ {
			// the lone dash as a declared option with suggested values: only the word `-` stands for it
			cd := Cfg{Mode: mode}
			cd.Nodes = []NodeCfg{rootNode(0, false)}
			dash := opt("string", "-", 1)
			dash.Sugg = Ts("stdin", "tty")
			cd.Opts = []OptCfg{dash, opt("bool", "flag", 1)}
			f.Defs = append(f.Defs, Def{Cfg: cd, Tokens: Ts("-", "--", "---", "---=", "---=s", "--f", "-=s", "x", ""), L: 2, Comp: true})
			c := Cfg{Mode: mode}
			c.Nodes = []NodeCfg{rootNode(0, false)}
			label := multi("smap", "label", 1, 1, 2)
			label.Sugg = Ts("region=", "zone=", "plain")
			la := opt("string", "la", 1)
			la.Sugg = Ts("k=")
			l := opt("string", "l", 1)
			l.Valid = Ts("x=", "y")
			c.Opts = []OptCfg{label, la, l}
			f.Defs = append(f.Defs, Def{Cfg: c, Tokens: toks, L: lim(tier, 2, 2), Comp: true})
		}
		fams = append(fams, f)
	}

	// complete-w: completion below a wrapper (UnsetOptions) that has options of its own and a sub-command (C17)
	{
		f := Family{Name: "complete-w"}
		toks := Ts("w", "s", "--", "--w", "--wo=", "--wo=d", "--r", "--so", "-", "x", "")
		for mode := 0; mode < 2; mode++ {
			for variant := 0; variant < 2; variant++ {
				c := Cfg{Mode: mode, OptsLate: variant == 1}
				c.Nodes = []NodeCfg{rootNode(0, false), cmdNode("w", 1, 2, false, true), cmdNode("s", 2, 2, false, true)}
				c.Nodes[1].Unset = true
				wo := opt("string", "wo", 2, "wa")
				wo.Sugg = Ts("dev", "prod")
				c.Opts = []OptCfg{opt("string", "r", 1), wo, opt("bool", "wflag", 2), opt("bool", "so", 3)}
				if variant == 1 {
					c = WithHelp(c, "help")
				}
				f.Defs = append(f.Defs, Def{Cfg: c, Tokens: toks, L: lim(tier, 3, 3), Comp: true})
			}
		}
		fams = append(fams, f)
	}

	// inherit: unknown mode and require-order set on the top level only, before the commands are created: the commands
	// take them over from their parent (C08, C09); the top level declares no options of its own
	{
		f := Family{Name: "inherit"}
		toks := Ts("cmd", "sub", "--v", "--s=1", "--u", "x", "--", "-")
		for _, um := range []int{0, 1, 2} {
			for _, ro := range []bool{false, true} {
				for mode := 0; mode < 2; mode++ {
					c := Cfg{Mode: mode, Inherit: true}
					c.Nodes = []NodeCfg{rootNode(um, ro), cmdNode("cmd", 1, um, ro, true), cmdNode("sub", 2, um, ro, true)}
					c.Opts = []OptCfg{opt("bool", "v", 2), opt("string", "s", 2), opt("bool", "t", 3)}
					f.Defs = append(f.Defs, Def{Cfg: c, Tokens: toks, L: lim(tier, 4, 5)})
				}
			}
		}
		fams = append(fams, f)
	}

	// shadow: definitions in which a command declares an option and an ancestor later declares one with the same name
	// or alias (the ancestor's takes over the shared keys when the options are handed down). Outside the
	// specification's definitions: only run-to-run and process-to-process determinism is checked (C20)
	{
		f := Family{Name: "shadow"}
		for mode := 0; mode < 2; mode++ {
			// (a) a command with its own `help` option (alias usage); HelpCommand("help") declared last, as documented
			c := Cfg{Mode: mode}
			c.Nodes = []NodeCfg{rootNode(0, false), cmdNode("run", 1, 0, false, true), cmdNode("sub", 2, 0, false, true)}
			c.Nodes[0].Fn = true
			own := opt("bool", "help", 2, "usage")
			own.Desc = T("the command's own help option")
			c.Opts = []OptCfg{opt("bool", "v", 1), own, opt("string", "s", 3)}
			c = WithHelp(c, "help")
			f.Defs = append(f.Defs, Def{Cfg: c, NDOnly: true, Disp: true, HelpF: true, L: lim(tier, 3, 3),
				Tokens: Ts("run", "sub", "--help", "--usage", "help", "--v", "--s=x", "x")})
			// (b) three levels, options declared after the commands: cmd has --quiet|-q, the top level later --queue|-q
			c2 := Cfg{Mode: mode, OptsLate: true}
			c2.Nodes = []NodeCfg{rootNode(0, false), cmdNode("cmd", 1, 0, false, true), cmdNode("sub", 2, 0, false, true)}
			c2.Nodes[0].Fn = true
			c2.Opts = []OptCfg{opt("string", "queue", 1, "q"), opt("bool", "quiet", 2, "q"), opt("bool", "t", 3)}
			c2 = WithHelp(c2, "help")
			f.Defs = append(f.Defs, Def{Cfg: c2, NDOnly: true, Disp: true, HelpF: true, L: lim(tier, 4, 4),
				Tokens: Ts("cmd", "sub", "-q", "--q", "fast", "--quiet", "--queue=x", "--t", "help")})
			// the same two as completion requests
			f.Defs = append(f.Defs, Def{Cfg: c, NDOnly: true, Comp: true, L: 3, Tokens: Ts("run", "sub", "--", "--h", "--u", "-", "")})
			f.Defs = append(f.Defs, Def{Cfg: c2, NDOnly: true, Comp: true, L: 3, Tokens: Ts("cmd", "sub", "--", "--q", "-q", "-", "")})
		}
		fams = append(fams, f)
	}

	// order: at least two entries in every table a diagnostic is chosen from (C20)
	{
		f := Family{Name: "order"}
		toks := Ts("--ver", "--ve", "--u1", "--u2", "-u3", "c1", "c2", "--aaa=x", "--bbb=y", "--ccc", "--help", "help", "x", "c")
		for _, um := range []int{0, 1} {
			for mode := 0; mode < 2; mode++ {
				c := Cfg{Mode: mode}
				c.Nodes = []NodeCfg{rootNode(um, false), cmdNode("c1", 1, um, false, true), cmdNode("c2", 1, um, false, true)}
				c.Nodes[0].Fn = true
				aaa := opt("string", "aaa", 1, "zz")
				aaa.Req = true
				bbb := opt("string", "bbb", 1, "a0")
				bbb.Req = true
				ccc := opt("bool", "ccc", 2, "ab")
				ccc.Req = true
				ddd := opt("int", "ddd", 2)
				ddd.Req, ddd.HasMsg, ddd.ReqMsg = true, true, T("ddd is needed")
				c.Opts = []OptCfg{aaa, bbb, ccc, ddd, opt("bool", "verbose", 1), opt("bool", "version", 1), opt("bool", "verify", 1, "vet")} // --ver: three candidates, --ve: four
				c = WithHelp(c, "help")
				f.Defs = append(f.Defs, Def{Cfg: c, Tokens: toks, L: lim(tier, 3, 4), Disp: true})
				if um == 0 {
					// which missing option is named does not depend on what the program did with the object before
					cl := c
					cl.OptsLate = true
					f.Defs = append(f.Defs, Def{Cfg: cl, Tokens: Ts("c1", "c2", "--aaa=x", "--bbb=y", "--ccc", "x"), L: 3, Disp: true,
						Pres: [][]Tok{Ts("c1"), Ts("c2", "x")}})
				}
			}
		}
		// names an ordering by numeric value cannot tell apart still come out in one fixed order
		{
			c := Cfg{}
			c.Nodes = []NodeCfg{rootNode(0, false), cmdNode("c1", 1, 0, false, true)}
			c.Nodes[0].Fn = true
			r1 := opt("string", "step1", 1)
			r1.Req = true
			r2 := opt("string", "step01", 1)
			r2.Req = true
			c.Opts = []OptCfg{r1, r2, opt("bool", "id7", 1), opt("bool", "id007", 1), opt("bool", "id07", 2)}
			c = WithHelp(c, "help")
			f.Defs = append(f.Defs, Def{Cfg: c, Tokens: Ts("--help", "help", "c1", "--step1=x", "--step01=y", "--id", "x"), L: 3, Disp: true})
		}
		fams = append(fams, f)
	}

	// helpdoc: 12 kinds x alias counts x required x env x descriptions x levels (C18)
	{
		f := Family{Name: "helpdoc"}
		toks := Ts("--help", "help", "c1", "sub")
		descs := []string{"", "one line", "first line\nsecond line"}
		for variant := 0; variant < 6; variant++ {
			c := Cfg{Mode: variant % 3}
			c.Nodes = []NodeCfg{rootNode(0, false), cmdNode("c1", 1, 0, false, true), cmdNode("sub", 2, 0, false, true), cmdNode("w", 1, 2, false, true),
				cmdNode("ws", 4, 2, false, true)} // ws: a command under the wrapper: sees the wrapper's own options, not the root's
			c.OptsLate = variant%2 == 1 // the options of a level are declared after its commands (the help command re-propagates them)
			c.Nodes[0].Fn = true
			c.Nodes[1].Desc = T(descs[(variant+1)%3])
			c.Nodes[2].Desc = T(descs[(variant+2)%3])
			c.Nodes[3].Unset = true
			if variant%2 == 1 {
				c.Desc = T("the program")
				c.Nodes[1].Args = Ts("<file>", "<dest>")
				c.Nodes[1].ArgsD = Ts("input file", "")
				// two declared arguments of which only the second is described; a single argument without description
				c.Nodes[2].Args = Ts("<src>", "<dst>")
				c.Nodes[2].ArgsD = Ts("", "destination directory")
				c.Nodes[0].Args = Ts("<only>")
				c.Nodes[0].ArgsD = Ts("")
			}
			for ki, kind := range AllKinds {
				o := multi(kind, "o"+kind, 1+(ki+variant)%4, 1, 1+ki%3)
				if (ki+variant)%3 != 0 {
					o.Aliases = Ts(string(rune('a'+ki)), "alias"+kind)[:1+(ki+variant)%2]
					o.AliasSplit = ki%2 == 0 // each alias given by its own Alias modifier
				}
				o.Req = (ki+variant)%4 == 0
				if o.Req && ki%2 == 0 {
					o.HasMsg, o.ReqMsg = true, T("need it")
				}
				if (ki+variant)%5 < 2 {
					o.Env = T(fmt.Sprintf("VERIF_ENV_H%d", ki))
				}
				o.Desc = T(descs[(ki+variant)%3])
				if ki%4 == 1 {
					o.ArgName = T("thing")
				}
				o.DefB = ki%2 == 0 && variant%2 == 0
				if (kind == "string" || kind == "sopt") && variant%3 == 1 {
					// the default is shown as it is: backslashes, quotes, a tab and a format verb included
					o.DefT = T("C:\\tmp\\out \"q\"\t%d 'x'")
				}
				c.Opts = append(c.Opts, o)
			}
			if variant >= 3 {
				c.Opts = append(c.Opts, opt("bool", "é", 1), opt("string", "-", 2))
			}
			hname := []string{"help", "ayuda"}[variant%2]
			if variant%2 == 1 {
				c.Self = true
				c.Prog = T("tool")
			}
			if variant == 1 || variant == 4 {
				// a program without a help command: the text comes from Help(); with options declared after the commands
				// (variant 1) the top level's options exist when its last command is created and reach the earlier
				// ones through it
				cn := c
				cn.Nodes = append([]NodeCfg{}, c.Nodes...)
				cn.Opts = append([]OptCfg{}, c.Opts...)
				f.Defs = append(f.Defs, Def{Cfg: cn, Tokens: Ts("c1", "sub", "w", "ws"), L: 2, Disp: true, HelpF: true})
			}
			c = WithHelp(c, hname, "?", "hlp")
			c.Opts[c.HelpOpt()-1].AliasSplit = variant >= 2
			toks = Ts("--"+hname, hname, "c1", "sub", "w", "ws")
			f.Defs = append(f.Defs, Def{Cfg: c, Tokens: toks, L: lim(tier, 2, 3), Disp: true, HelpF: true})
		}
		// few short options next to names and argument texts made of multi-byte characters: the columns of the lists are
		// computed from byte lengths, whatever the characters are
		for mode := 0; mode < 2; mode++ {
			c := Cfg{Mode: mode}
			c.Nodes = []NodeCfg{rootNode(0, false), cmdNode("añadir-日本語", 1, 0, false, true), cmdNode("ls", 1, 0, false, true)}
			c.Nodes[0].Fn = true
			c.Nodes[1].Desc = T("añade")
			c.Nodes[1].Args = Ts("<ファイル名>", "<x>")
			c.Nodes[1].ArgsD = Ts("el fichero", "")
			out := opt("string", "出力形式", 1+mode)
			out.Desc = T("formato")
			c.Opts = []OptCfg{opt("bool", "é", 1), out}
			c = WithHelp(c, "help")
			f.Defs = append(f.Defs, Def{Cfg: c, Tokens: Ts("--help", "help", "añadir-日本語", "ls"), L: 2, Disp: true, HelpF: true})
		}
		fams = append(fams, f)
	}

	// setvalue: the program's own SetValue calls between definition and Parse, for every kind (C01, C02, C12)
	{
		f := Family{Name: "setvalue"}
		toks := Ts("--o", "--o=1", "--o=K=z", "1", "2..3", "K=w", "x", "--")
		type sv struct {
			kind string
			sets [][]string
		}
		for _, k := range []sv{
			{"bool", [][]string{{}}}, {"bool", [][]string{{"false"}}}, {"bool", [][]string{{"true"}, {"x"}}},
			{"incr", [][]string{{}, {}}}, {"incr", [][]string{{"5"}}},
			{"string", [][]string{{"preset"}}}, {"string", [][]string{{"a", "b"}}}, {"sopt", [][]string{{""}}},
			{"int", [][]string{{"5"}}}, {"int", [][]string{{"5"}, {"x"}}}, {"iopt", [][]string{{"007", "x"}}},
			{"float", [][]string{{"2.5"}}}, {"fopt", [][]string{{"1e3"}, {"1..2"}}},
			{"sslice", [][]string{{"a", "b"}, {"c"}}}, {"sslice", [][]string{{}}},
			{"islice", [][]string{{"1", "2..4"}}}, {"islice", [][]string{{"1", "x"}, {"9"}}}, {"islice", [][]string{{"3..1"}}},
			{"fslice", [][]string{{"1.5", "2"}}}, {"fslice", [][]string{{"1", "y", "3"}}},
			{"smap", [][]string{{"k=v", "K=w"}}}, {"smap", [][]string{{"k=v", "novalue", "z=1"}}},
		} {
			c := Cfg{Mode: 0, Lower: k.kind == "smap"}
			c.Nodes = []NodeCfg{rootNode(0, false), cmdNode("cmd", 1, 0, false, true)}
			o := multi(k.kind, "o", 1, 1, 2)
			o.DefT = T(map[string]string{"string": "def", "sopt": "def", "int": "7", "iopt": "7", "float": "7.5", "fopt": "7.5"}[k.kind])
			c.Opts = []OptCfg{o, opt("string", "other", 2)}
			for _, vals := range k.sets {
				c.Sets = append(c.Sets, SetCfg{Opt: 1, Vals: Ts(vals...)})
			}
			c.Sets = append(c.Sets, SetCfg{Opt: 0, Vals: Ts("v")}, SetCfg{Opt: 2, Vals: Ts("through the command")})
			f.Defs = append(f.Defs, Def{Cfg: c, Tokens: toks, L: lim(tier, 2, 3)})
		}
		// valid values are enforced for SetValue too
		for _, vals := range [][]string{{"a"}, {"x"}, {"a", "x"}} {
			c := Cfg{Mode: 0}
			c.Nodes = []NodeCfg{rootNode(0, false)}
			sv := opt("string", "o", 1)
			sv.Valid = Ts("a", "b")
			sv.DefT = T("b")
			lv := multi("sslice", "l", 1, 1, 2)
			lv.Valid = Ts("a", "b")
			c.Opts = []OptCfg{sv, lv}
			c.Sets = []SetCfg{{Opt: 1, Vals: Ts(vals...)}, {Opt: 2, Vals: Ts(vals...)}}
			f.Defs = append(f.Defs, Def{Cfg: c, Tokens: Ts("--o=a", "--o=x", "--l", "a", "x"), L: 2})
		}
		fams = append(fams, f)
	}

	// valid: options with enforced valid values, on the command line and through the environment (C12, C01)
	{
		f := Family{Name: "valid"}
		toks := Ts("--s", "--s=a", "--s=x", "--l", "--l=a", "a", "b", "x", "--io=1", "--io=3", "--")
		for mode := 0; mode < 3; mode++ {
			for _, ev := range []string{"<unset>", "a", "x"} {
				c := Cfg{Mode: mode}
				c.Nodes = []NodeCfg{rootNode(0, false)}
				sv := opt("string", "s", 1)
				sv.Valid = Ts("a", "b")
				sv.Env = T("VERIF_ENV_V")
				lv := multi("sslice", "l", 1, 1, 2)
				lv.Valid = Ts("a", "b")
				iv := opt("iopt", "io", 1)
				iv.Valid = Ts("1", "2")
				c.Opts = []OptCfg{sv, lv, iv}
				if ev != "<unset>" {
					c.Env = []EnvCfg{{Name: T("VERIF_ENV_V"), Val: T(ev)}}
				}
				f.Defs = append(f.Defs, Def{Cfg: c, Tokens: toks, L: lim(tier, 3, 4)})
			}
		}
		fams = append(fams, f)
	}
	return fams
}
