package gh

// Family - a set of definitions sharing a token alphabet; every argv of length <= L over the alphabet is
// explored for every definition, by TLC on the specification and by the enumerator on the real code.
type Family struct {
	Name string
	Defs []Def
}

func rootNode(um int, ro bool) NodeCfg {
	return NodeCfg{Name: Tok{}, Parent: 0, Um: um, Ro: ro}
}

func cmdNode(name string, parent int, um int, ro bool, fn bool) NodeCfg {
	return NodeCfg{Name: T(name), Parent: parent, Um: um, Ro: ro, Fn: fn}
}

func opt(kind, name string, node int, aliases ...string) OptCfg {
	o := OptCfg{Kind: kind, Name: T(name), Node: node, Aliases: Ts(aliases...), Min: 1, Max: 1}
	switch kind {
	case "string", "sopt":
		o.DefT = T("def")
	case "int", "iopt":
		o.DefT = T("7")
	case "float", "fopt":
		o.DefT = T("7.5")
	}
	return o
}

func multi(kind, name string, node, min, max int, aliases ...string) OptCfg {
	o := opt(kind, name, node, aliases...)
	o.Min, o.Max = min, max
	return o
}

// WithHelp - what HelpCommand(name, Alias(aliases...)) adds: a bool option at the root and a help
// sub-command under every (non-help) node.
func WithHelp(c Cfg, name string, aliases ...string) Cfg {
	h := opt("bool", name, 1, aliases...)
	h.IsHelpOpt = true
	c.Opts = append(c.Opts, h)
	n := len(c.Nodes)
	for i := 0; i < n; i++ {
		c.Nodes = append(c.Nodes, NodeCfg{Name: T(name), Parent: i + 1, Um: 0, Ro: false, Fn: true, IsHelp: true,
			Args: Ts("<topic>"), ArgsD: Ts("")})
	}
	// help nodes suggest their sibling commands
	for i := n; i < len(c.Nodes); i++ {
		p := c.Nodes[i].Parent
		for j, nd := range c.Nodes {
			if nd.Parent == p && j != i {
				c.Nodes[i].Sugg = append(c.Nodes[i].Sugg, nd.Name)
			}
		}
	}
	return c
}

var modeNames = []string{"normal", "bundling", "singledash"}

func lim(tier string, quick, thorough int) int {
	if tier == "thorough" {
		return thorough
	}
	return quick
}

// Families - the configuration families of DESIGN.md Appendix C.
func Families(tier string) []Family {
	fams := []Family{}

	// conserve: every token kind x unknown mode x require-order x a two-level command tree
	{
		f := Family{Name: "conserve"}
		toks := Ts("a", "--", "-", "", "--b", "--s", "--s=v", "--l", "--u", "--u=v", "-bu", "-uw", "cmd", "sub")
		for mode := 0; mode < 3; mode++ {
			for um := 0; um < 3; um++ {
				for _, ro := range []bool{false, true} {
					c := Cfg{Mode: mode}
					c.Nodes = []NodeCfg{rootNode(um, ro), cmdNode("cmd", 1, um, ro, true), cmdNode("sub", 2, um, ro, true)}
					c.Opts = []OptCfg{opt("bool", "b", 1), opt("string", "s", 1), multi("sslice", "l", 1, 1, 2), opt("bool", "c", 2)}
					f.Defs = append(f.Defs, Def{Cfg: c, Tokens: toks, L: lim(tier, 3, 4)})
				}
			}
		}
		fams = append(fams, f)
	}
	return fams
}
