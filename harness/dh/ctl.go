// Package dh - conformance harness for dag.Graph: a controller that single-steps the scheduler and worker
// goroutines of Graph.Run through the build-tag hooks, records one totally ordered event log and writes it as
// a trace for TLC (spec/DagTrace.tla).
package dh

import (
	"math/rand"
	"runtime"
	"sync"
	"time"
)

// Event - one line of a DAG trace.
type Event struct {
	Ev     string     `json:"ev"`
	G      string     `json:"g"`
	ID     string     `json:"id"`
	K      string     `json:"k"`      // kind / outcome / result
	N      int        `json:"n"`      // attempt number / retries / repeat count
	D      string     `json:"d"`      // dependency id (dep)
	Tags   [][]string `json:"tags"`   // fragments received by one Write call; errs of returned
	Order  []string   `json:"order"`  // DepthFirstSort result
	Tasks  []string   `json:"tasks"`  // config: task universe used
	Limit  int        `json:"limit"`  // config
	Serial bool       `json:"serial"` // config
	Buf    bool       `json:"buf"`    // config
	Run    int        `json:"run"`    // config: run number
}

func (e *Event) norm() {
	if e.Tags == nil {
		e.Tags = [][]string{}
	}
	if e.Order == nil {
		e.Order = []string{}
	}
	if e.Tasks == nil {
		e.Tasks = []string{}
	}
}

// Ctl - the controller. Every hooked goroutine parks after logging its event and continues only when released.
type Ctl struct {
	mu      sync.Mutex
	Log     []Event
	parked  map[string]chan struct{}
	rng     *rand.Rand
	lastEvt time.Time
	Gather  time.Duration // how long to let other goroutines reach their next hook before choosing
	Sticky  float64       // probability of releasing the same goroutine again (depth-first flavour)
	lastKey string
	stop    bool
	Runaway bool // a goroutine of the library loops without getting anywhere (see recWriter)
	NoPark  bool // log events without parking (used for the second Run of a graph, which launches nothing)
	// Fill - "fill the semaphore" schedule (single graph, no shared tasks): workers are held inside their task
	// function (parked at `enter`) until min(FillLimit, workers in flight) of them are inside at once. If the
	// scheduler has nothing more to launch, nobody else can be released and fewer workers than that got in, the
	// others are blocked although a slot is free: a `starved` event is logged (the specification has no such action).
	Fill      bool
	FillLimit int
	FillG     string
	fillIdle  int
	parkedEv  map[string]string
	idleRun   int // idle ticks (of any graph) since the last event that was not an idle tick
}

const fillPatience = 1500 // scheduler ticks granted to a worker that should be able to take a free slot

func NewCtl(seed int64) *Ctl {
	return &Ctl{parkedEv: map[string]string{}, parked: map[string]chan struct{}{}, rng: rand.New(rand.NewSource(seed)), lastEvt: time.Now(), Gather: 30 * time.Microsecond}
}

func isSched(ev string) bool {
	switch ev {
	case "recv", "alldone", "cancelobserved", "idle", "launch":
		return true
	}
	return false
}

// Emit - log an event and park the calling goroutine until the controller releases it.
func (c *Ctl) Emit(e Event, park bool) {
	key := "W/" + e.G + "/" + e.ID
	if isSched(e.Ev) {
		key = "S/" + e.G
	}
	c.mu.Lock()
	if c.stop {
		c.mu.Unlock()
		return
	}
	merged := false
	if e.Ev == "idle" {
		// run-length compression of idle ticks: the trailing run of idle entries holds one entry per graph (two graphs
		// that both have nothing to do tick alternately)
		c.idleRun++
		for k := len(c.Log) - 1; k >= 0 && c.Log[k].Ev == "idle"; k-- {
			if c.Log[k].G == e.G {
				c.Log[k].N++
				merged = true
				break
			}
		}
	} else {
		c.idleRun = 0
	}
	if len(c.Log) > 400000 {
		c.Runaway = true // no run of the harness comes anywhere near this many events
	}
	if merged {
	} else {
		e.norm()
		if e.Ev == "idle" {
			e.N = 1
		}
		c.Log = append(c.Log, e)
		c.lastEvt = time.Now()
	}
	if !park || c.NoPark {
		c.mu.Unlock()
		return
	}
	ch := make(chan struct{})
	c.parked[key] = ch
	c.parkedEv[key] = e.Ev
	c.mu.Unlock()
	<-ch
}

// LogOnly - append an event from the controller / main goroutine.
func (c *Ctl) LogOnly(e Event) { c.Emit(e, false) }

// Step - release one parked goroutine (seeded random choice). Returns false when nothing is parked.
func (c *Ctl) Step() bool {
	c.mu.Lock()
	if len(c.parked) == 0 {
		c.mu.Unlock()
		return false
	}
	c.mu.Unlock()
	// sometimes let the other goroutines reach their next hook first, so that there is a real choice
	if c.Gather > 0 && c.gatherNow() {
		time.Sleep(c.Gather)
	} else {
		runtime.Gosched()
	}
	c.mu.Lock()
	keys := make([]string, 0, len(c.parked))
	for k := range c.parked {
		keys = append(keys, k)
	}
	sortStrings(keys)
	if c.Fill {
		keys = c.fillChoice(keys)
		if len(keys) == 0 {
			// nothing may be released yet: somebody is on the way to its next hook
			c.mu.Unlock()
			time.Sleep(20 * time.Microsecond)
			return true
		}
	}
	var key string
	if _, ok := c.parked[c.lastKey]; ok && c.rng.Float64() < c.Sticky && contains(keys, c.lastKey) {
		key = c.lastKey
	} else {
		key = keys[c.rng.Intn(len(keys))]
	}
	ch := c.parked[key]
	delete(c.parked, key)
	c.lastKey = key
	c.mu.Unlock()
	close(ch)
	return true
}

func (c *Ctl) gatherNow() bool {
	c.mu.Lock()
	defer c.mu.Unlock()
	return c.rng.Intn(4) == 0
}

// ReleaseAll - let every goroutine run free from now on (end of a run, or after a failure).
func (c *Ctl) ReleaseAll() {
	c.mu.Lock()
	c.stop = true
	for k, ch := range c.parked {
		close(ch)
		delete(c.parked, k)
	}
	c.mu.Unlock()
}

func (c *Ctl) SinceLastEvent() time.Duration {
	c.mu.Lock()
	defer c.mu.Unlock()
	return time.Since(c.lastEvt)
}

// IdleStall - the scheduler has idled n times in a row while no other goroutine is waiting to be released:
// every worker is blocked or finished and nothing can change any more.
func (c *Ctl) IdleStall(n int) bool {
	c.mu.Lock()
	defer c.mu.Unlock()
	if len(c.Log) == 0 {
		return false
	}
	last := c.Log[len(c.Log)-1]
	if last.Ev != "idle" {
		return false
	}
	graphs := 0
	for k := len(c.Log) - 1; k >= 0 && c.Log[k].Ev == "idle"; k-- {
		graphs++
	}
	if c.idleRun < n*graphs {
		return false
	}
	for k := range c.parked {
		if k[0] != 'S' {
			return false
		}
	}
	return true
}

// WorkersInFlight - worker goroutines of graph g that were launched and have not yet logged their last hook.
func (c *Ctl) WorkersInFlight(g string) int {
	c.mu.Lock()
	defer c.mu.Unlock()
	n := 0
	for _, e := range c.Log {
		if e.G != g {
			continue
		}
		if e.Ev == "launch" && e.K == "run" {
			n++
		}
		if e.Ev == "releasing" {
			n--
		}
	}
	return n
}

func (c *Ctl) IsRunaway() bool {
	c.mu.Lock()
	defer c.mu.Unlock()
	return c.Runaway
}

func (c *Ctl) NumEvents() int {
	c.mu.Lock()
	defer c.mu.Unlock()
	return len(c.Log)
}

func (c *Ctl) Intn(n int) int {
	c.mu.Lock()
	defer c.mu.Unlock()
	return c.rng.Intn(n)
}

func sortStrings(a []string) {
	for i := 1; i < len(a); i++ {
		for j := i; j > 0 && a[j] < a[j-1]; j-- {
			a[j], a[j-1] = a[j-1], a[j]
		}
	}
}

// IsParked - is the goroutine with this key waiting to be released?
func (c *Ctl) IsParked(key string) bool {
	c.mu.Lock()
	defer c.mu.Unlock()
	_, ok := c.parked[key]
	return ok
}

// Release - release one specific parked goroutine.
func (c *Ctl) Release(key string) bool {
	c.mu.Lock()
	ch, ok := c.parked[key]
	if ok {
		delete(c.parked, key)
		c.lastKey = key
	}
	c.mu.Unlock()
	if ok {
		close(ch)
	}
	return ok
}

// EventAt - the i-th logged event (ok=false if not there yet).
func (c *Ctl) EventAt(i int) (Event, bool) {
	c.mu.Lock()
	defer c.mu.Unlock()
	if i < len(c.Log) {
		return c.Log[i], true
	}
	return Event{}, false
}

// LastEventOfKey - the most recent event logged by the goroutine with this key.
func (c *Ctl) LastEventOfKey(key string) (Event, bool) {
	c.mu.Lock()
	defer c.mu.Unlock()
	for i := len(c.Log) - 1; i >= 0; i-- {
		e := c.Log[i]
		k := "W/" + e.G + "/" + e.ID
		if isSched(e.Ev) {
			k = "S/" + e.G
		}
		if k == key && (isSched(e.Ev) || isWorkerEv(e.Ev)) {
			return e, true
		}
	}
	return Event{}, false
}

func isWorkerEv(ev string) bool {
	switch ev {
	case "acquiring", "acquired", "locking", "locked", "enter", "frag", "exit", "flush", "sending", "unlocking", "releasing":
		return true
	}
	return false
}

func contains(keys []string, k string) bool {
	for _, x := range keys {
		if x == k {
			return true
		}
	}
	return false
}

// fillChoice - the goroutines that may be released next under the fill schedule (c.mu is held).
func (c *Ctl) fillChoice(keys []string) []string {
	held, workers, sched := []string{}, []string{}, []string{}
	for _, k := range keys {
		switch {
		case k[0] == 'S':
			sched = append(sched, k)
		case c.parkedEv[k] == "enter":
			held = append(held, k)
		default:
			workers = append(workers, k)
		}
	}
	if len(workers) > 0 {
		c.fillIdle = 0
		return workers // bring every launched worker as far as it gets
	}
	inflight := 0
	lastIdle := false
	for _, e := range c.Log {
		if e.G != c.FillG {
			continue
		}
		if e.Ev == "launch" && e.K == "run" {
			inflight++
		}
		if e.Ev == "releasing" {
			inflight--
		}
		if isSched(e.Ev) {
			lastIdle = e.Ev == "idle"
		}
	}
	target := c.FillLimit
	if inflight < target {
		target = inflight
	}
	if !lastIdle {
		return sched // let the scheduler launch what it can (nothing to release while it is between two hooks)
	}
	if len(held) >= target {
		c.Fill = false // the semaphore was filled: from here on the ordinary seeded choice
		return keys
	}
	// somebody was launched, is not parked and did not get in although a slot is free: it gets fillPatience scheduler
	// ticks to show up at its next hook
	if len(sched) == 0 {
		return nil // the scheduler is between two hooks
	}
	c.fillIdle++
	if c.fillIdle <= fillPatience {
		return sched
	}
	e := Event{Ev: "starved", G: c.FillG, N: len(held), Limit: c.FillLimit}
	e.norm()
	c.Log = append(c.Log, e)
	c.Fill = false
	return keys
}
