package dh

import (
	"context"
	"errors"
	"fmt"
	"io"
	"log"
	"math/rand"
	"regexp"
	"runtime"
	"strconv"
	"strings"
	"sync"
	"time"

	"github.com/DavidGamba/go-getoptions"
	"github.com/DavidGamba/go-getoptions/dag"
)

// Op - one graph construction call.
type Op struct {
	Op string `json:"op"` // add | dep | retries | deferr
	T  string `json:"t"`
	D  string `json:"d"`
	R  int    `json:"r"`
}

// Plan - everything the environment decides for one run.
type Plan struct {
	Run      int
	G        string
	Tasks    []string
	Limit    int // 0: leave the default
	Serial   bool
	Buf      bool
	History  []Op
	Outcomes map[string][]string // per task, per attempt: nil | err | skipparents
	Frags    int
	CancelAt int // cancel the context once this many events were logged; <0: never
	Seed     int64
	Sticky   float64
}

var Universe = []string{"a", "b", "c", "d", "e", "f", "g", "h"}

var errTask = errors.New("task failed on request")

// GenPlan - a random graph (as a construction history), outcomes, limits and cancellation point.
func GenPlan(r *rand.Rand, maxV int, weird float64) Plan {
	n := 1 + r.Intn(maxV)
	ids := append([]string{}, Universe[:n]...)
	r.Shuffle(n, func(i, j int) { ids[i], ids[j] = ids[j], ids[i] })
	p := Plan{Tasks: append([]string{}, Universe[:n]...), Outcomes: map[string][]string{}, CancelAt: -1, Seed: r.Int63()}
	switch r.Intn(4) {
	case 0:
		p.Limit = 0
	default:
		p.Limit = 1 + r.Intn(3)
	}
	p.Serial = r.Intn(5) == 0
	p.Buf = r.Intn(3) == 0
	if p.Buf {
		p.Frags = r.Intn(3)
	}
	p.Sticky = []float64{0, 0, 0.5, 0.9}[r.Intn(4)]
	dens := []float64{0.2, 0.4, 0.7}[r.Intn(3)]
	ops := []Op{}
	for i := 0; i < n; i++ {
		if r.Intn(3) > 0 {
			ops = append(ops, Op{Op: "add", T: ids[i]})
		}
		for j := 0; j < i; j++ {
			if r.Float64() < dens {
				ops = append(ops, Op{Op: "dep", T: ids[i], D: ids[j]})
			}
		}
		if r.Intn(4) == 0 {
			ops = append(ops, Op{Op: "retries", T: ids[i], R: r.Intn(3)})
		}
	}
	// make sure every id exists
	seen := map[string]bool{}
	for _, o := range ops {
		seen[o.T] = true
		if o.D != "" {
			seen[o.D] = true
		}
	}
	for _, id := range ids {
		if !seen[id] {
			ops = append(ops, Op{Op: "add", T: id})
		}
	}
	r.Shuffle(len(ops), func(i, j int) { ops[i], ops[j] = ops[j], ops[i] })
	// unusual construction: re-adding known tasks, duplicate / self / back edges, lookups of unknown tasks
	for r.Float64() < weird {
		at := r.Intn(len(ops) + 1)
		var o Op
		switch r.Intn(8) {
		case 0, 1, 2, 3:
			o = Op{Op: "add", T: ids[r.Intn(n)]} // re-add (or early add)
		case 4:
			if len(ops) > 0 {
				o = ops[r.Intn(len(ops))] // duplicate call
			} else {
				o = Op{Op: "add", T: ids[0]}
			}
		case 5:
			t := ids[r.Intn(n)]
			o = Op{Op: "dep", T: t, D: t} // self edge
		case 6:
			o = Op{Op: "dep", T: ids[r.Intn(n)], D: ids[r.Intn(n)]} // possibly a back edge
		default:
			o = Op{Op: "deferr"}
		}
		ops = append(ops[:at], append([]Op{o}, ops[at:]...)...)
	}
	p.History = ops
	for _, id := range ids {
		outs := []string{}
		for k := 0; k < 4; k++ {
			x := r.Intn(10)
			switch {
			case x < 6:
				outs = append(outs, "nil")
			case x < 9:
				outs = append(outs, "err")
			default:
				outs = append(outs, "skipparents")
			}
		}
		p.Outcomes[id] = outs
	}
	if r.Intn(5) == 0 {
		p.CancelAt = r.Intn(40)
	}
	return p
}

// recWriter - the io.Writer given to SetOutputBuffer: logs the fragments of every Write call.
type recWriter struct {
	c *Ctl
	g string
}

func (w *recWriter) Write(p []byte) (int, error) {
	tags := [][]string{}
	for _, f := range strings.Split(strings.TrimSuffix(string(p), ";"), ";") {
		if f == "" {
			continue
		}
		tags = append(tags, strings.Split(f, ":"))
	}
	id := ""
	if len(tags) > 0 {
		id = tags[0][0]
	}
	w.c.LogOnly(Event{Ev: "write", G: w.g, ID: id, Tags: tags})
	return len(p), nil
}

var reTaskErr = regexp.MustCompile(`(?s)^Task [^:]*:(.*?) error: `)

// Classify - result kind and entries of the error returned by Run.
func Classify(err error) (string, [][]string) {
	if err == nil {
		return "nil", [][]string{}
	}
	if errors.Is(err, dag.ErrorGraphHasCycle) {
		return "cycle", [][]string{}
	}
	var es *dag.Errors
	if !errors.As(err, &es) {
		return "other:" + err.Error(), [][]string{}
	}
	out := [][]string{}
	kind := "errors"
	for _, e := range es.Errors {
		id := ""
		if m := reTaskErr.FindStringSubmatch(e.Error()); m != nil {
			id = m[1]
		}
		switch {
		case errors.Is(e, dag.ErrorTaskSkipped):
			out = append(out, []string{"skipped", id})
		case errors.Is(e, errTask):
			out = append(out, []string{"task", id})
		case strings.HasPrefix(e.Error(), "cancellation received"):
			out = append(out, []string{"cancel", ""})
		case errors.Is(e, dag.ErrorTaskDependencyDuplicate), errors.Is(e, dag.ErrorTaskNotFound), errors.Is(e, dag.ErrorTaskNil),
			errors.Is(e, dag.ErrorTaskID), errors.Is(e, dag.ErrorTaskFn):
			kind = "gerrs"
		default:
			out = append(out, []string{"other", e.Error()})
		}
	}
	if kind == "gerrs" {
		return kind, [][]string{}
	}
	return kind, out
}

// RunResult - what came out of executing one plan.
type RunResult struct {
	Events []Event
	Hang   bool
	Panic  string
}

var hookMu sync.Mutex // dag.VerifHook is a process-wide variable: one controlled run at a time

// RunPlans - execute one or two plans (graphs sharing Task objects run concurrently) under one controller.
func RunPlans(plans []*Plan) RunResult {
	hookMu.Lock()
	defer hookMu.Unlock()
	c := NewCtl(plans[0].Seed)
	c.Sticky = plans[0].Sticky
	dag.Logger = log.New(io.Discard, "", 0)
	mine := map[string]bool{}
	for _, p := range plans {
		mine[p.G] = true
	}
	dag.VerifHook = func(ev, graph, id, detail string) {
		if !mine[graph] {
			return // a goroutine left over from an earlier run that never returned
		}
		c.Emit(Event{Ev: ev, G: graph, ID: id, K: detail}, true)
	}
	defer func() { dag.VerifHook = nil }()

	res := RunResult{}
	attempts := map[string]int{} // key g/id
	var amu sync.Mutex
	tasks := map[string]*dag.Task{}
	mkFn := func(id string) getoptions.CommandFn {
		return func(ctx context.Context, opt *getoptions.GetOpt, args []string) error {
			g, _ := ctx.Value(gKey("g")).(string)
			var p *Plan
			for _, q := range plans {
				if q.G == g {
					p = q
				}
			}
			amu.Lock()
			attempts[g+"/"+id]++
			k := attempts[g+"/"+id]
			amu.Unlock()
			c.Emit(Event{Ev: "enter", G: g, ID: id, N: k}, true)
			if p.Buf {
				for j := 1; j <= p.Frags; j++ {
					fmt.Fprintf(dag.Stdout(ctx), "%s:%d:%d;", id, k, j)
					c.Emit(Event{Ev: "frag", G: g, ID: id, N: k, Tags: [][]string{{id, strconv.Itoa(k), strconv.Itoa(j)}}}, true)
				}
			}
			outs := p.Outcomes[id]
			o := "nil"
			if k-1 < len(outs) {
				o = outs[k-1]
			}
			c.Emit(Event{Ev: "exit", G: g, ID: id, N: k, K: o}, true)
			switch o {
			case "err":
				return fmt.Errorf("attempt %d: %w", k, errTask)
			case "skipparents":
				return dag.ErrorSkipParents
			}
			return nil
		}
	}
	for _, id := range Universe {
		tasks[id] = dag.NewTask(id, mkFn(id))
	}

	type running struct {
		p      *Plan
		cancel context.CancelFunc
		done   chan struct{}
	}
	runs := []*running{}
	for _, p := range plans {
		g := dag.NewGraph(p.G)
		g.TickerDuration = 20 * time.Microsecond
		if p.Limit > 0 {
			g.SetMaxParallel(p.Limit)
		}
		if p.Serial {
			g.SetSerial()
		}
		if p.Buf {
			g.SetOutputBuffer(&recWriter{c: c, g: p.G})
		}
		lim := p.Limit
		if lim == 0 {
			lim = 1000000
		}
		c.LogOnly(Event{Ev: "config", G: p.G, Tasks: p.Tasks, Limit: lim, Serial: p.Serial, Buf: p.Buf, Run: p.Run})
		for _, o := range p.History {
			switch o.Op {
			case "add":
				g.AddTask(tasks[o.T])
			case "dep":
				g.TaskDependsOn(tasks[o.T], tasks[o.D])
			case "retries":
				g.TaskRetries(tasks[o.T], o.R)
			case "deferr":
				g.Task("no-such-task")
			}
			c.LogOnly(Event{Ev: o.Op, G: p.G, ID: o.T, D: o.D, N: o.R})
		}
		order, serr := g.DepthFirstSort()
		ids := []string{}
		for _, v := range order {
			ids = append(ids, string(v.ID))
		}
		k := "ok"
		if serr != nil {
			k = "cycle"
			if !errors.Is(serr, dag.ErrorGraphHasCycle) {
				k = "other"
			}
		}
		c.LogOnly(Event{Ev: "sort", G: p.G, K: k, Order: ids})
		ctx, cancel := context.WithCancel(context.WithValue(context.Background(), gKey("g"), p.G))
		rn := &running{p: p, cancel: cancel, done: make(chan struct{})}
		runs = append(runs, rn)
		c.LogOnly(Event{Ev: "run", G: p.G})
		go func(g *dag.Graph, p *Plan, rn *running) {
			defer close(rn.done)
			defer func() {
				if r := recover(); r != nil {
					res.Panic = fmt.Sprint(r)
				}
			}()
			err := g.Run(ctx, nil, nil)
			kind, entries := Classify(err)
			c.LogOnly(Event{Ev: "returned", G: p.G, K: kind, Tags: entries})
		}(g, p, rn)
	}

	// drive
	cancelled := map[string]bool{}
	for {
		alldone := true
		for _, rn := range runs {
			select {
			case <-rn.done:
			default:
				alldone = false
			}
			if rn.p.CancelAt >= 0 && !cancelled[rn.p.G] && c.NumEvents() >= rn.p.CancelAt {
				select {
				case <-rn.done:
				default:
					cancelled[rn.p.G] = true
					c.LogOnly(Event{Ev: "cancel", G: rn.p.G})
					rn.cancel()
				}
			}
		}
		if !c.Step() {
			if alldone {
				// workers may still be on their way to the deferred hooks: wait for silence
				if c.SinceLastEvent() > 1500*time.Microsecond {
					break
				}
			}
			runtime.Gosched()
			time.Sleep(5 * time.Microsecond)
		}
		if !alldone && (c.SinceLastEvent() > 10*time.Second || c.IdleStall(3000)) {
			res.Hang = true
			break
		}
	}
	c.ReleaseAll()
	for _, rn := range runs {
		rn.cancel()
	}
	c.mu.Lock()
	res.Events = append([]Event{}, c.Log...)
	c.mu.Unlock()
	return res
}

type gKey string
