#!/usr/bin/env python3
"""seedround.py <worktree-suffix> <seed-number> [props...]: verify, store and test a round of sub-agent seeded changes.
For every property P with a worktree /tmp/seed/P<suffix>: lib/seedverify.sh -> seeded/P-<n>, then lib/seedtest2.sh."""
import sys, os, re, subprocess, json
V = os.path.dirname(os.path.dirname(os.path.abspath(__file__)))
suffix, num = sys.argv[1], sys.argv[2]
props = sys.argv[3:] or ["C%02d" % i for i in range(1, 21)]
for p in props:
    wt = "/tmp/seed/%s%s" % (p, suffix)
    if not os.path.exists(os.path.join(wt, "_seed", "patch.diff")) or not os.path.exists(os.path.join(wt, "_seed", "meta.json")):
        print("%s: no delivery in %s" % (p, wt)); continue
    demo = os.path.join(wt, "_seed", "demo_test.go")
    pkg = "."
    if os.path.exists(demo) and re.search(r"^package dag", open(demo).read(), re.M):
        pkg = "dag"
    name = "%s-%s" % (p, num)
    r = subprocess.run([os.path.join(V, "lib/seedverify.sh"), wt, pkg, name], capture_output=True, text=True)
    last = (r.stdout.strip().splitlines() or ["?"])[-1]
    ok = "failing-packages=0" in last and "with-change: FAIL" in last and "without: ok" in last
    print("%s verify: %s" % (name, "ok" if ok else "NOT CONFIRMED: " + last), flush=True)
    if not ok:
        continue
    r = subprocess.run([os.path.join(V, "lib/seedtest2.sh"), os.path.join(V, "seeded", name), p], capture_output=True, text=True, env=dict(os.environ, SEEDLINES="400"))
    out = r.stdout
    nv = len(re.findall(r"^VIOLATION", out, re.M))
    m = re.search(r"(\d+) violations", out)
    total = m.group(1) if m else "?"
    first = ""
    for l in out.splitlines():
        if l.startswith("  input:") or "does not allow" in l:
            first = l.strip()[:200]; break
    broken = "BROKEN" in out
    print("%s test: %s violations=%s %s %s" % (name, "CAUGHT" if nv else ("BROKEN" if broken else "MISSED"), total, "(on base commit)" if "applied on its base" in out else "", first), flush=True)
