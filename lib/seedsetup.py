#!/usr/bin/env python3
"""seedsetup.py <worktree-suffix> [emphasis-file]: create one scratch worktree of /repo per property under
/tmp/seed/<P><suffix> and write the sub-agent prompt (lib/seed_prompt_template.txt with the property text, nothing
from /verif) to /tmp/seed/prompts/<P><suffix>.txt. An optional emphasis file holds one line "<P>: <text>" per
property that is appended to the prompt (a hint about the kind of change wanted, never about the checks)."""
import sys, os, json, subprocess
V = os.path.dirname(os.path.dirname(os.path.abspath(__file__)))
suffix = sys.argv[1]
emph = {}
if len(sys.argv) > 2:
    for l in open(sys.argv[2]):
        if ":" in l:
            k, v = l.split(":", 1); emph[k.strip()] = v.strip()
tmpl = open(os.path.join(V, "lib/seed_prompt_template.txt")).read()
os.makedirs("/tmp/seed/prompts", exist_ok=True)
for l in open(os.path.join(V, "properties.jsonl")):
    p = json.loads(l)
    wt = "/tmp/seed/%s%s" % (p["id"], suffix)
    if not os.path.exists(wt):
        subprocess.run(["git", "-C", "/repo", "worktree", "add", "--detach", "-q", wt, "HEAD"], check=True)
    text = "%s: %s\n\n%s\n\nQuantifier: %s" % (p["id"], p["title"], p["statement"], p["quantifier"]["text"])
    pr = tmpl.replace("WORKTREE", wt).replace("PROPERTY_TEXT", text)
    e = emph.get(p["id"]) or emph.get("*")
    if e:
        pr += "\nAdditional request for this round: " + e + "\n"
    open("/tmp/seed/prompts/%s%s.txt" % (p["id"], suffix), "w").write(pr)
    print(wt)
