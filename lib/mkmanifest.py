"""Regenerates MANIFEST.json from the check tables (python3 lib/mkmanifest.py)."""
import json, os, subprocess, sys
sys.path.insert(0, os.path.dirname(os.path.abspath(__file__)))
import parser_checks, dag_checks
VERIF = os.path.dirname(os.path.dirname(os.path.abspath(__file__)))

props = [json.loads(l) for l in open(os.path.join(VERIF, "properties.jsonl"))]
hooks = subprocess.run(["git", "-C", "/repo", "log", "--format=%H %s"], capture_output=True, text=True).stdout.splitlines()
hook_commits = [l.split()[0] for l in hooks if l.split(" ", 1)[1].startswith("verif:")]

TEXT = {}
TEXT.update(parser_checks.MANIFEST_TEXT)
TEXT.update(dag_checks.MANIFEST_TEXT)

checks, na = [], []
for p in props:
    pid = p["id"]
    if pid in TEXT:
        t = TEXT[pid]
        checks.append({
            "property_id": pid,
            "quick_cmd": "./check %s --tier quick" % pid,
            "thorough_cmd": "./check %s --tier thorough" % pid,
            "evidence_file": "/verif/evidence/%s.json" % pid,
            "replay_cmd_template": "./check %s --replay {path}" % pid,
            "engine": t["engine"],
            "level_claimed": {"category": t["level"], "text": t["text"], "design_ref": t["ref"]},
            "level_note": t["note"],
            "technique": t["technique"],
        })
    else:
        na.append({"property_id": pid, "reason": "check not built yet (work in progress; see DESIGN.md build order)"})

m = {
    "version": 1,
    "setup_cmd": "./setup.sh",
    "hooks": {
        "guard": "verif",
        "enable": "go build -tags verif (the harness module under /verif/harness replaces github.com/DavidGamba/go-getoptions with /repo)",
        "baseline_off_cmd": "cd /repo && for m in . ./internal/completion/test; do (cd $m && GOFLAGS=-mod=mod go test -vet=off -count=1 ./...); done",
        "source_commits": hook_commits,
        "add_only": True,
    },
    "engines": [
        {"name": "getopt-tla", "path": "spec/Getopt.tla spec/GetoptProps.tla spec/GetoptComp.tla spec/GetoptHelp.tla spec/GetoptMC.tla spec/GetoptTrace.tla harness/ lib/parser_checks.py",
         "serves_properties": [c["property_id"] for c in checks if c["engine"] == "getopt-tla"],
         "kind_free_text": "explicit TLA+ specification of the parser checked exhaustively by TLC on bounded configuration families; traces recorded from the real library (exhaustive enumeration of the same families plus seeded random definitions/argv) validated against the specification by TLC"},
        {"name": "dag-tla", "path": "spec/Dag.tla spec/DagMC.tla spec/DagTrace.tla harness/ lib/dag_checks.py",
         "serves_properties": [c["property_id"] for c in checks if c["engine"] == "dag-tla"],
         "kind_free_text": "explicit TLA+ specification of the DAG scheduler/workers checked by TLC (safety + liveness); controlled schedules of the real dag.Graph.Run recorded through build-tag hooks and validated against the specification by TLC"},
    ],
    "checks": checks,
    "notes": "exit 0 held / 1 violation (VIOLATION line) / 2 machinery broken. VERIF_SEED seeds every random choice. Scratch under /verif/.work (removed per run).",
    "not_applicable": na,
}
json.dump(m, open(os.path.join(VERIF, "MANIFEST.json"), "w"), indent=1)
print("checks:", [c["property_id"] for c in checks], "pending:", [n["property_id"] for n in na])
