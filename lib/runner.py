"""Orchestrator for the go-getoptions verification checks (stdlib only)."""
import argparse, json, os, re, shutil, subprocess, sys, time, hashlib, glob
from concurrent.futures import ThreadPoolExecutor

VERIF = os.path.dirname(os.path.dirname(os.path.abspath(__file__)))
REPO = os.environ.get("VERIF_REPO", "/repo")   # development aid: run the checks against a scratch copy of the repository
TLA_CP = "/opt/veriftools/tla/tla2tools.jar:/opt/veriftools/tla/CommunityModules-deps.jar"
NCPU = os.cpu_count() or 4

GOENV = dict(os.environ, GOFLAGS="-mod=mod", GOPROXY="off", GOSUMDB="off", GOTOOLCHAIN="local",
             GOCACHE=os.environ.get("GOCACHE", os.path.join(VERIF, ".work", "gocache")))


class Broken(Exception):
    """The machinery (not the code under test) failed: exit 2."""


def log(msg):
    print(msg, flush=True)


def run(cmd, cwd=None, env=None, timeout=None, ok=(0,)):
    p = subprocess.run(cmd, cwd=cwd, env=env, timeout=timeout, stdout=subprocess.PIPE, stderr=subprocess.STDOUT, text=True)
    if ok is not None and p.returncode not in ok:
        raise Broken("command failed (%d): %s\n%s" % (p.returncode, " ".join(cmd), p.stdout[-4000:]))
    return p


# --------------------------------------------------------------------------- build

def build_harness(work, binary="gopt", race=False):
    os.makedirs(GOENV["GOCACHE"], exist_ok=True)
    out = os.path.join(work, binary + ("-race" if race else ""))
    cmd = ["go", "build", "-tags", "verif"]
    if race:
        cmd.append("-race")
    cmd += ["-o", out, "./cmd/" + binary]
    hdir = os.path.join(VERIF, "harness")
    if REPO != "/repo":
        hdir = os.path.join(work, "harness-src")
        if not os.path.exists(hdir):
            shutil.copytree(os.path.join(VERIF, "harness"), hdir)
            gm = open(os.path.join(hdir, "go.mod")).read().replace("=> /repo", "=> " + REPO)
            open(os.path.join(hdir, "go.mod"), "w").write(gm)
    p = subprocess.run(cmd, cwd=hdir, env=GOENV, stdout=subprocess.PIPE, stderr=subprocess.STDOUT, text=True)
    if p.returncode != 0:
        # /repo does not compile with the hooks on: nothing can be decided
        raise Broken("harness build failed:\n" + p.stdout[-4000:])
    return out


# --------------------------------------------------------------------------- TLC

def tlc(work, name, module, cfg_text, workers=1, heap="2g", timeout=3600, extra=()):
    """Run TLC on spec/<module>.tla in its own scratch directory; returns (returncode, output)."""
    d = os.path.join(work, "tlc-" + name)
    os.makedirs(d, exist_ok=True)
    for f in glob.glob(os.path.join(VERIF, "spec", "*.tla")):
        shutil.copy(f, d)
    with open(os.path.join(d, module + ".cfg"), "w") as f:
        f.write(cfg_text)
    gc = max(1, min(4, workers))
    cmd = ["timeout", str(timeout), "java", "-Xms%s" % heap, "-Xmx%s" % heap, "-Xss256m", "-XX:+UseParallelGC",
           "-XX:ParallelGCThreads=%d" % gc, "-cp", TLA_CP, "tlc2.TLC", "-workers", str(workers),
           "-metadir", os.path.join(d, "md"), "-noGenerateSpecTE"] + list(extra) + [module + ".tla"]
    p = subprocess.run(cmd, cwd=d, stdout=subprocess.PIPE, stderr=subprocess.STDOUT, text=True)
    shutil.rmtree(os.path.join(d, "md"), ignore_errors=True)
    return p.returncode, p.stdout, d


RE_STATS = re.compile(r"^(\d+) states generated, (\d+) distinct states found", re.M)


def tlc_stats(out):
    m = RE_STATS.findall(out)
    if not m:
        return 0, 0
    g, d = m[-1]
    return int(g), int(d)


def tla_unquote(line):
    """A string value printed by PrintT: "...." with \\" and \\\\ escapes."""
    s = line.strip()
    if not (s.startswith('"') and s.endswith('"')):
        return None
    s = s[1:-1]
    return s.replace('\\"', '"').replace("\\\\", "\\")


def tlc_messages(out):
    """JSON messages printed by the specs through PrintT(ToJson(...))."""
    msgs = []
    for line in out.splitlines():
        if line.startswith('"{') and line.rstrip().endswith('}"'):
            s = tla_unquote(line)
            try:
                msgs.append(json.loads(s))
            except Exception:
                raise Broken("unparsable TLC message: " + line[:300])
    return msgs


def tlc_failed(rc, out):
    """Anything other than a clean completed run."""
    if rc != 0:
        return True
    if "Model checking completed. No error has been found." not in out:
        return True
    return False


# --------------------------------------------------------------------------- evidence / findings

def load_findings():
    p = os.path.join(VERIF, "known_findings.json")
    if not os.path.exists(p):
        return []
    return json.load(open(p))["findings"]


def write_evidence(prop, tier, seed, level, coverage, assumptions, wall, violations):
    evdir = os.path.join(VERIF, "evidence")
    if REPO != "/repo":
        evdir = os.path.join(VERIF, ".work", "evidence-dev")   # runs against a scratch copy never touch the registered evidence
    os.makedirs(evdir, exist_ok=True)
    ev = {"property_id": prop, "tier": tier, "seed": seed, "level": level, "coverage": coverage,
          "assumptions": assumptions, "wall_s": round(wall, 2), "violations": violations}
    with open(os.path.join(evdir, prop + ".json"), "w") as f:
        json.dump(ev, f, indent=1)


def next_replay_path(prop):
    d = os.path.join(VERIF, "replays")
    os.makedirs(d, exist_ok=True)
    n = 0
    while True:
        p = os.path.join(d, "%s-%03d.json" % (prop, n))
        if not os.path.exists(p):
            return p
        n += 1


def tok(t):
    """atoms -> printable text (for messages only)."""
    out = []
    for a in t:
        if len(a) == 1:
            out.append(a)
        else:
            try:
                out.append(bytes.fromhex(a[1:]).decode("utf-8", "backslashreplace"))
            except Exception:
                out.append("?")
    return "".join(out)


def main(argv):
    ap = argparse.ArgumentParser(prog="check")
    ap.add_argument("prop")
    ap.add_argument("--tier", default=os.environ.get("VERIF_TIER", "quick"), choices=["quick", "thorough"])
    ap.add_argument("--replay", default=None)
    ap.add_argument("--keep", action="store_true", help="keep the scratch directory")
    a = ap.parse_args(argv)
    seed = int(os.environ.get("VERIF_SEED", "1") or "1")
    work = os.path.join(os.environ.get("VERIF_SCRATCH", os.path.join(VERIF, ".work")), "%s-%d" % (a.prop, os.getpid()))
    shutil.rmtree(work, ignore_errors=True)
    os.makedirs(work)
    t0 = time.time()
    try:
        import parser_checks, dag_checks
        if a.prop in parser_checks.PROPS:
            rc = parser_checks.check(a.prop, a.tier, seed, work, a.replay, t0)
        elif a.prop in dag_checks.PROPS:
            rc = dag_checks.check(a.prop, a.tier, seed, work, a.replay, t0)
        else:
            log("unknown property " + a.prop)
            rc = 2
    except Broken as e:
        log("BROKEN: %s" % e)
        rc = 2
    except subprocess.TimeoutExpired as e:
        log("BROKEN: timeout %s" % e)
        rc = 2
    finally:
        subprocess.run(["pkill", "-f", "tlc2.TL[C].*" + re.escape(work)], stdout=subprocess.DEVNULL, stderr=subprocess.DEVNULL)
        if not a.keep:
            shutil.rmtree(work, ignore_errors=True)
    return rc
