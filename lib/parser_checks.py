"""Checks of the parser properties (C01-C12, C17-C20) through spec/Getopt*.tla."""
import json, os, subprocess, time, shutil
from concurrent.futures import ThreadPoolExecutor
from runner import (VERIF, NCPU, GOENV, Broken, log, run, build_harness, tlc, tlc_stats, tlc_messages, tlc_failed,
                    load_findings, write_evidence, next_replay_path, tok)
import findings

NSHARD = NCPU

# lens: the observable fields a property constrains (a divergence elsewhere belongs to another property)
PROPS = {
    "C01": dict(families=["scalar-s", "scalar-n", "setvalue", "late-wrapper"], lens={"vals", "called", "err", "seterr", "agree"}, rand=("C01", 30000, 150000),
                preds=["ScalarExact", "FlagSemantics", "CalledExact"]),
    "C02": dict(families=["multi-ss", "multi-is", "multi-fs", "multi-sm", "setvalue"], lens={"vals", "err", "rest", "seterr"}, rand=("C02", 30000, 150000),
                preds=["IntakeCount", "StoredInOrder", "MapStored"]),
    "C03": dict(families=["conserve", "conserve-n", "deep-ro", "wrapper"], lens={"rest", "aliased"}, rand=("C03", 30000, 150000),
                preds=["Conservation", "UnknownNeverDropped"]),
    "C04": dict(families=["term", "scalar-s"], lens={"rest", "vals", "called", "err", "aliased"}, rand=("C04", 30000, 150000),
                preds=["TerminatorRoles", "Frozen (action property)"]),
    "C05": dict(families=["abbrev", "late-wrapper"], lens={"vals", "called", "as", "err"}, rand=("C05", 30000, 400000),
                preds=["UniquePrefixEqFull", "ExactWins", "AmbiguousRejectedAll"]),
    "C06": dict(families=["alias", "setvalue"], lens={"vals", "called", "as", "agree"}, rand=("C06", 30000, 400000),
                preds=["AliasEqPrimary", "CalledExact", "UntouchedKeepDefault", "FrameOneOption (action property)"]),
    "C07": dict(families=["modes"], lens={"vals", "called", "as", "rest", "err"}, rand=("C07", 30000, 150000),
                preds=["LongModeIndependent", "RewriteEquiv"]),
    "C08": dict(families=["wrapper", "conserve", "conserve-n", "inherit", "term"], lens={"err", "warn", "rest"}, rand=("C08", 30000, 150000),
                preds=["UnknownNeverDropped"]),
    "C10": dict(families=["tree", "late-wrapper"], lens={"ran", "derr", "helpof", "rest", "writer"}, rand=("C10", 30000, 400000),
                preds=["ExactlyOneFn", "DeepestCommand"]),
    "C11": dict(families=["required", "late-wrapper"], lens={"err", "derr", "ran", "helpof", "writer"}, rand=("C11", 30000, 600000),
                preds=["RequiredEnforced"]),
    "C12": dict(families=["env", "valid", "setvalue", "late-wrapper"], lens={"vals", "called", "as", "seterr"}, rand=("C12", 30000, 800000),
                preds=["EnvPrecedence", "CalledExact", "UntouchedKeepDefault"]),
    "C17": dict(families=["complete", "complete-eq", "complete-w"], lens={"comps", "exits", "ran", "writer"}, rand=("C17", 30000, 800000),
                preds=["CandidatesExact", "OfferedAccepted"]),
    "C18": dict(families=["helpdoc"], lens={"help", "helpcomplete", "helpof"}, rand=("C18", 6000, 400000), relational=False,
                preds=["HelpDocComplete (evaluated on the parsed real text)", "HelpDocOf equality", "three paths same text"]),
    "C19": dict(families=["modes", "wrapper", "complete-eq", "complete", "tree", "helpdoc"], lens={"panic", "hang", "rest", "exits"}, fuzz=(24000, 800000), level="exploration",
                preds=["NotStuck", "VariantDecreases (action property)", "ErrImpliesNilRest"]),
    "C20": dict(families=["order", "complete", "complete-eq", "shadow"], lens={"nondet", "err", "derr", "comps", "warn", "aliased"}, rand=[("C20", 8000, 300000), ("C20c", 4000, 200000)],
                repeat=6, twice=True, preds=["FixedRule"]),
    "C09": dict(families=["term", "conserve", "inherit", "deep-ro", "conserve-n"], lens={"rest", "vals", "called", "aliased"}, rand=("C09", 30000, 150000),
                preds=["StopRoles", "PrefixAsUnordered", "NoStopAsUnordered", "Frozen (action property)"]),
}

_NOTE = ("Trusted: TLC and the CommunityModules Json reader; the harness builder/observer (no parsing logic of its own); Go's strconv as the "
         "conversion oracle the property itself names; exhaustive only up to the stated argv length over the stated alphabets, random beyond.")


def _mt(ref, text):
    return dict(engine="getopt-tla", level="model_checking", ref=ref, note=_NOTE, text=text,
                technique="TLA+ specification model-checked by TLC + TLC trace validation of executions of the real library")


MANIFEST_TEXT = {
    "C01": _mt("DESIGN.md 5 C01", "The spec's ScalarExact/FlagSemantics/CalledExact predicates hold in every state TLC reaches for all argv up to the bound over the scalar families (3 modes); every one of those argv plus seeded random definitions with wild value texts is executed on the real library and its outcome (values via strconv oracle, Called, error) validated against the spec by TLC. The program's own SetValue calls (values and their error results) are part of the definitions; values that begin with a separator character, empty strings and words that are also command names are in the alphabets; Value / Called / CalledAs are read through every name and through the top-level object after a wrapper or help command was selected."),
    "C02": _mt("DESIGN.md 5 C02", "IntakeCount/StoredInOrder/MapStored recompute each multi-value option's content declaratively from ghost token roles and TLC checks them on all argv up to the bound over the (min,max) grid x 4 element types; the same cases and random ones are run on the real library and validated. Maxima up to the largest int, environment variables bound to multi-value options (documented no-op) and SetValue presets (BaseVal) are covered."),
    "C03": _mt("DESIGN.md 5 C03", "Conservation (remaining = tokens whose ghost role is text/pass/tail/stop, in order) is a TLC invariant over token kinds x 3 modes x 3 unknown modes x require-order x a two-level command tree; real outcomes of every such argv and of random trees are validated against the spec. The harness overwrites the argument slice after Parse: the remaining list must not share memory with it (observable `aliased`)."),
    "C04": _mt("DESIGN.md 5 C04", "TerminatorRoles plus the action property Frozen (no option/command/unknown bookkeeping changes once `--` was reached) checked by TLC with `--` at every position after every option kind; real outcomes validated."),
    "C05": _mt("DESIGN.md 5 C05", "Relational invariant UniquePrefixEqFull (run on the command line with every unique prefix replaced by the full name gives the same outcome and CalledAs), ExactWins and AmbiguousRejectedAll checked by TLC over nested-prefix name sets; real outcomes incl. the candidate list validated. History cases: an earlier Parse on the same object, also one that ran before the help option was declared, must not change what an abbreviation resolves to."),
    "C06": _mt("DESIGN.md 5 C06", "AliasEqPrimary (relational), CalledExact, UntouchedKeepDefault and the frame action property checked by TLC for all 12 kinds with aliases; the harness additionally asserts pointer / *Var / Value(name) / Value(alias) agreement on every executed case. History cases (a Parse after an earlier Parse, also a two-pass program) compare what a fresh Parse establishes: Called / CalledAs of options given now, through the environment or by SetCalled."),
    "C07": _mt("DESIGN.md 5 C07", "LongModeIndependent and RewriteEquiv (outcome equals the outcome of the documented rewriting, written from the documentation table, not from the splitter) checked by TLC over single-dash tokens incl. multibyte letters; real outcomes in all 3 modes validated."),
    "C08": _mt("DESIGN.md 5 C08", "UnknownNeverDropped checked by TLC over trees with wrappers and unknown tokens before/after command tokens in 3 unknown modes; real error / warning / remaining validated. Definitions are built in several API call orders (settings before / after the commands, inherited or explicit, options before / after the commands, nested wrappers unset afterwards)."),
    "C09": _mt("DESIGN.md 5 C09", "StopRoles, PrefixAsUnordered and NoStopAsUnordered (relational: state before the stop point equals the state of an unordered parse of the prefix) checked by TLC; real outcomes validated. Require-order set on the top level only (inherited), on a deeper command only, and tails that contain `--`, empty strings and `-=x` are covered."),
}

MANIFEST_TEXT.update({
    "C10": _mt("DESIGN.md 5 C10", "ExactlyOneFn and DeepestCommand (the node reached by following exactly the tokens with ghost role cmd) checked by TLC over command trees with functions, own/inherited options, wrappers, require-order and help; the harness's instrumented CommandFns record which function ran how often, with which context, arguments and option view, and TLC validates that against the spec. Options declared after the commands of a level (re-propagated by a later NewCommand or the help command), wrappers with own options and sub-commands, required options above wrappers and GetRequiredArg helpers with fewer named arguments than calls are covered."),
    "C11": _mt("DESIGN.md 5 C11", "RequiredEnforced checked by TLC with required options at every level x custom messages x env binding x help by option, alias, abbreviation and help command; real Parse/Dispatch errors (errors.Is(ErrorParsing), custom message), help level and executed functions validated; which of several missing options is named is left open here (C20 fixes the rule)."),
    "C17": _mt("DESIGN.md 5 C17", "GetoptComp.tla mirrors the completion branch (earlier words parsed with the ordinary parser steps in the configured mode, candidates generated at the level reached); TLC checks CandidatesExact (the operational candidate list equals the declarative definition written from the property statement) and OfferedAccepted on every COMP_LINE up to the bound x bash/zsh; the real completion output (bag of candidates, sortedness, exactly one exit with 124, no command function run, nothing on Writer) is validated for every such line and random ones. Suggested values that end in `=`, options whose names are prefixes of each other, the lone dash option, wrappers with own options and sub-commands, help topics at nested levels and raw COMP_LINE texts are covered; the harness's dynamic completion functions answer, next to their fixed list, a candidate that spells out the arguments they were called with (target shell, the text collected so far at the level reached, the typed word / the text typed after `=`), which the specification predicts (ArgEcho / ValEcho). One request in 29 is also executed in a child process that keeps the library's own exit function and completion writer: the process must end with status 124 after printing exactly the list seen in-process."),
    "C20": _mt("DESIGN.md 5 C20", "In the specification every outcome is a function of (definition, input): the only place where the code consults an unordered table to choose a diagnostic (missing required option) is modelled with an explicit rule (first missing name in the level's sorted name list, FixedRule); TLC validates the exact diagnostic, and every case is executed 7 times in one process (Go re-randomises map iteration per range) and again in a fresh process, with a hash over every observable (values, remaining, full error text, Writer text incl. help, completion output) required to be identical. Definitions the specification does not admit (two options sharing a key along one root-to-leaf chain) are run as determinism-only cases."),
    "C18": _mt("DESIGN.md 5 C18", "GetoptHelp.tla defines the help document of a command level (synopsis items, required / option lists with aliases, defaults, environment variables, command list, footer); the real text printed through Help(), the help option and the help command is parsed back into that structure, TLC checks (a) equality with the specified document, (b) the property statement HelpDocComplete directly on the parsed text (every option of the level exactly once in exactly one list with all aliases, required iff required, default iff not required, env iff bound; every sub-command except help exactly once), (c) the three paths give the same text; over all 12 kinds x alias counts x required x env x multi-line descriptions x levels and random definitions. The spec side of (a) is close to definitional: the weight is on the enumeration and the parse-back. Also equal to that text: Help() of the level's own object without a Parse, and the concatenation of single sections for section lists in several orders. Definitions vary in API call order (several Alias modifiers, modifiers in another order, options after commands, Var receivers holding other content)."),
    "C19": dict(_mt("DESIGN.md 5 C19", "Spec side: totality (NotStuck: the case analysis of the loop has no hole), termination (every step decreases a lexicographic variant, an action property) and ErrImpliesNilRest are checked by TLC on every family. Code side is observational, hence the level: a byte-level driver (raw random bytes as tokens, COMP_LINE words and environment values, 1000-4000 byte tokens, bundles of up to 1200 letters, int ranges at the int64 boundaries with spans <= 10^4) runs Parse / Dispatch / completion under recover and a 3 s watchdog and checks no panic, no hang, nil remaining on error and exactly one exit on the completion path; the cases representable as atoms are additionally validated against the specification."), level="exploration"),
    "C12": _mt("DESIGN.md 5 C12", "EnvPrecedence with the definition-time environment step modelled before any command-line step, checked by TLC for every supported kind x env text class x CLI spelling; real values, Called and CalledAs validated. Also: the GetEnv modifier created before the variable exists (read at declaration), SetCalled placed before GetEnv, environment variables on multi-value options, SetValue presets, an earlier Parse on the same object."),
})

MC_CFG = """SPECIFICATION Spec
CONSTANTS
  FamFile = "%(fam)s"
  MaxLen = %(maxlen)d
  Relational = %(rel)s
  Emit = FALSE
INVARIANTS NotStuck AlwaysPreds FinalOK RelOK
PROPERTIES VariantDecreases Frozen FrameOneOption
CHECK_DEADLOCK FALSE
"""

COMP_MC_CFG = """SPECIFICATION Spec
CONSTANTS
  FamFile = "%(fam)s"
  MaxLen = %(maxlen)d
INVARIANT CompOK
CHECK_DEADLOCK FALSE
"""

TRACE_CFG = """SPECIFICATION Spec
CONSTANT TraceFile = "%(trace)s"
POSTCONDITION AllConsumed
CHECK_DEADLOCK FALSE
"""


NOSPEC_FAMILIES = {"shadow"}


def model_check(work, fam, famfile, maxlen, relational=True):
    with open(famfile) as f:
        comp = json.loads(f.readline()).get("comp", False)
    if comp:
        rc, out, d = tlc(work, "mc-" + fam, "GetoptCompMC", COMP_MC_CFG % dict(fam=famfile, maxlen=maxlen),
                         workers=NCPU, heap="8g", timeout=7200)
    else:
        rc, out, d = tlc(work, "mc-" + fam, "GetoptMC",
                         MC_CFG % dict(fam=famfile, maxlen=maxlen, rel="TRUE" if relational else "FALSE"),
                         workers=NCPU, heap="8g", timeout=7200)
    gen, dist = tlc_stats(out)
    if tlc_failed(rc, out):
        msgs = [m for m in tlc_messages(out) if m.get("k") == "SPECFAIL"]
        tail = "\n".join(out.splitlines()[-40:])
        raise Broken("the specification fails its own properties on family %s (rc=%d): %s\n%s" % (fam, rc, msgs[:3], tail))
    return gen, dist


CHUNK_BYTES = int(os.environ.get("VERIF_CHUNK_MB", "40")) << 20   # TLC reads a whole trace file into memory: validate long traces in pieces of about this size


def validate_one(work, name, trace):
    rc, out, d = tlc(work, "tv-" + name, "GetoptTrace", TRACE_CFG % dict(trace=trace), workers=1, heap="1500m", timeout=7200)
    if tlc_failed(rc, out):
        raise Broken("trace validation did not complete for %s (rc=%d):\n%s" % (name, rc, "\n".join(out.splitlines()[-30:])))
    shutil.rmtree(d, ignore_errors=True)
    return tlc_messages(out)


def validate_trace(work, name, trace):
    """TLC trace validation of one trace file (cut at definition lines into pieces TLC can hold) -> messages."""
    if os.path.getsize(trace) <= CHUNK_BYTES:
        return validate_one(work, name, trace)
    msgs, k, size, out = [], 0, 0, None
    piece = trace + ".piece"
    with open(trace) as f:
        for line in f:
            if line.startswith('{"ev":"def"') and size > CHUNK_BYTES:
                out.close()
                msgs += validate_one(work, "%s-%d" % (name, k), piece)
                k, size, out = k + 1, 0, None
            if out is None:
                out = open(piece, "w")
            out.write(line)
            size += len(line)
    if out is not None:
        out.close()
        msgs += validate_one(work, "%s-%d" % (name, k), piece)
    os.remove(piece)
    return msgs


DRIVER_ENV = dict(GOENV)


def run_driver(gopt, args, trace):
    p = subprocess.run([gopt] + args + ["-out", trace], stdout=subprocess.PIPE, stderr=subprocess.STDOUT, text=True, env=DRIVER_ENV)
    info = {"cases": 0, "nontrivial": 0, "hang": None, "stats": {}}
    for line in p.stdout.splitlines():
        if line.startswith("STATS "):
            for k, v in json.loads(line[6:]).items():
                info["stats"][k] = info["stats"].get(k, 0) + v
            continue
        for kv in line.split():
            if "=" in kv:
                k, v = kv.split("=", 1)
                if k in ("cases", "nontrivial") and v.isdigit():
                    info[k] += int(v)
        if line.startswith("HANG"):
            info["hang"] = line
        if line.startswith("FUZZFAIL"):
            info.setdefault("fuzzfail", []).append(line)
    if p.returncode not in (0, 3) and "fatal error:" in p.stdout:
        # the Go runtime killed the driver (stack overflow, concurrent map access ...). If the same command dies the same
        # way again it is the library under test that does it (the drivers are deterministic): a panic-class violation.
        p2 = subprocess.run([gopt] + args + ["-out", trace + ".again"], stdout=subprocess.PIPE, stderr=subprocess.STDOUT, text=True, env=DRIVER_ENV)
        if p2.returncode not in (0, 3) and "fatal error:" in p2.stdout:
            what = [l for l in p2.stdout.splitlines() if l.startswith("fatal error:")][0]
            frames = [l.strip() for l in p2.stdout.splitlines() if "go-getoptions" in l and "verifharness" not in l][:6]
            info["crash"] = {"command": " ".join(args), "what": what, "library_frames": frames}
            return info
    if p.returncode not in (0, 3):
        raise Broken("driver failed (%d): %s\n%s" % (p.returncode, " ".join(args), p.stdout[-3000:]))
    return info


def find_case(trace, cid):
    """(def record, case record) of case id `cid` in a trace file."""
    cur = None
    needle = '"id":%d,' % cid
    with open(trace) as f:
        for line in f:
            if line.startswith('{"ev":"def"'):
                cur = line
            elif needle in line:
                c = json.loads(line)
                if c.get("id") == cid:
                    return json.loads(cur), c
    raise Broken("case %d not found in %s" % (cid, trace))


RE_HASH = None


def raw_hashes(path):
    import re
    global RE_HASH
    RE_HASH = RE_HASH or re.compile(r'"id":(\d+),.*"rawhash":"([0-9a-f]*)"')
    out = {}
    with open(path) as f:
        for line in f:
            if line.startswith('{"ev":"case"'):
                m = RE_HASH.search(line)
                if m:
                    out[int(m.group(1))] = m.group(2)
    return out


def drive_and_validate(work, gopt, jobs, twice=False):
    """jobs: list of (name, driver-args). Runs drivers then validators in parallel; returns per-job results."""
    os.makedirs(os.path.join(work, "tr"), exist_ok=True)
    results = []

    def one(job):
        name, arglists = job
        trace = os.path.join(work, "tr", name + ".ndjson")
        info = {"cases": 0, "nontrivial": 0, "hang": None, "stats": {}}
        with open(trace, "w") as out:
            for i, args in enumerate(arglists):
                part = trace + ".part%d" % i
                inf = run_driver(gopt, args, part)
                info["cases"] += inf["cases"]
                info["nontrivial"] += inf["nontrivial"]
                info["hang"] = info["hang"] or inf["hang"]
                if inf.get("crash"):
                    info.setdefault("crashes", []).append(inf["crash"])
                info.setdefault("fuzzfail", []).extend(inf.get("fuzzfail", []))
                for k2, v2 in inf["stats"].items():
                    info["stats"][k2] = info["stats"].get(k2, 0) + v2
                if os.path.exists(part):
                    with open(part) as f:
                        shutil.copyfileobj(f, out)
                    os.remove(part)
        msgs = validate_trace(work, name, trace) if info["cases"] > 0 else []
        cross = []
        if twice:
            # the same cases executed again by fresh processes: every observable (hash of all outputs) must be identical
            h1 = raw_hashes(trace)
            h2 = {}
            for i, args in enumerate(arglists):
                part = trace + ".again%d" % i
                run_driver(gopt, args, part)
                h2.update(raw_hashes(part))
                os.remove(part)
            cross = sorted(k for k in h1 if h2.get(k) != h1[k])
        return dict(name=name, trace=trace, info=info, msgs=msgs, cross=cross)

    with ThreadPoolExecutor(max_workers=NSHARD) as ex:
        for r in ex.map(one, jobs):
            results.append(r)
    return results


def describe(defrec, case):
    cfg = defrec["cfg"]
    d = {"mode": cfg["mode"], "root_unknown_mode": cfg["nodes"][0]["um"], "root_require_order": cfg["nodes"][0]["ro"],
         "argv": [tok(t) for t in case["argv"]], "dispatch": case["disp"], "completion": case["comp"]}
    if case.get("haspre"):
        d["earlier_parse_on_same_object"] = [tok(t) for t in case.get("pre", [])]
        if case.get("preearly"):
            d["earlier_parse_ran_before_the_help_command_was_declared"] = True
    return d


def check(prop, tier, seed, work, replay, t0):
    P = PROPS[prop]
    gopt = build_harness(work)
    if P.get("repeat"):
        DRIVER_ENV["GOPT_REPEAT"] = str(P["repeat"])
    if replay:
        return do_replay(prop, P, gopt, work, replay)
    famdir = os.path.join(work, "fam")
    run([gopt, "families", "-out", famdir, "-tier", tier], env=GOENV)
    states = transitions = 0
    jobs = [("shard-%d" % k, []) for k in range(NSHARD)]
    for fi, fam in enumerate(P["families"]):
        famfile = os.path.join(famdir, fam + ".ndjson")
        if not os.path.exists(famfile):
            raise Broken("family %s was not generated" % fam)
        maxlen = 0   # the bound recorded in the family for this tier
        t1 = time.time()
        if fam in NOSPEC_FAMILIES:
            log("family %s: definitions outside the specification; only run-to-run / process-to-process determinism is compared" % fam)
        else:
            gen, dist = model_check(work, fam, famfile, maxlen, relational=P.get("relational", True))
            log("spec: family %s (argv bound %d): %d states, %d transitions, all properties hold (%.0fs)" % (fam, maxlen, dist, gen, time.time() - t1))
            states += dist
            transitions += gen
        for k in range(NSHARD):
            jobs[k][1].append(["enum", "-fam", famfile, "-L", str(maxlen), "-shard", str(k), "-of", str(NSHARD), "-idbase", str(fi * 50000000)])
    if P.get("fuzz"):
        n = P["fuzz"][0 if tier == "quick" else 1]
        for k in range(NSHARD):
            jobs[k][1].append(["fuzz", "-n", str(n // NSHARD + 1), "-seed", str(seed * 1000 + k), "-fail", os.path.join(work, "fuzzfail")])
    rands = P.get("rand") or []
    if rands and not isinstance(rands, list):
        rands = [rands]
    for ri, (rname, nq, nt) in enumerate(rands):
        n = nq if tier == "quick" else nt
        for k in range(NSHARD):
            jobs[k][1].append(["rand", "-prop", rname, "-n", str(n // NSHARD + 1), "-seed", str(seed * 1000 + k),
                               "-idbase", str(1000000000 + ri * 300000000)])
    t1 = time.time()
    results = drive_and_validate(work, gopt, jobs, twice=P.get("twice", False))
    log("conformance: %d trace files recorded from the real code and validated by TLC (%.0fs)" % (len(results), time.time() - t1))

    cases = sum(r["info"]["cases"] for r in results)
    nontrivial = sum(r["info"]["nontrivial"] for r in results)
    classes = {}
    for r in results:
        for k2, v2 in r["info"]["stats"].items():
            classes[k2] = classes.get(k2, 0) + v2
    log("outcome classes of the executed cases: %s" % json.dumps(classes, sort_keys=True))
    known = load_findings()
    violations, notes, unverifiable, specfail, knownhits = [], 0, 0, [], {}
    acts_seen = {}   # action of the specification -> number of trace files with an execution that takes it
    samples = []
    for r in results:
        if r["info"]["hang"]:
            violations.append(dict(kind="hang", trace=r["trace"], cid=None, fields=["hang"], exp=None, job=r["name"]))
        for cr in r["info"].get("crashes", []):
            violations.append(dict(kind="crash", trace=r["trace"], cid=None, fields=["panic"], exp=None, job=r["name"], crash=cr))
        for line in r["info"].get("fuzzfail", []):
            import re as _re
            m = _re.search(r'kind="([^"]*)" file=(\S+)', line)
            violations.append(dict(kind="fuzz", trace=r["trace"], cid=None, fields=[m.group(1)], exp=None, job=r["name"], file=m.group(2)))
        for cid in r.get("cross", [])[:50]:
            violations.append(dict(kind="crossproc", trace=r["trace"], cid=cid, fields=["nondet"], exp=None, job=r["name"]))
        for m in r["msgs"]:
            if m["k"] == "ACTS":
                for a in m["acts"]:
                    acts_seen[a] = acts_seen.get(a, 0) + 1
            elif m["k"] == "UNVERIFIABLE":
                unverifiable += 1
            elif m["k"] == "SPECFAIL":
                specfail.append((r["trace"], m))
            elif m["k"] == "DIFF":
                fields = set(m["fields"])
                if fields & {"panic", "hang"} or fields & P["lens"]:
                    violations.append(dict(kind="diff", trace=r["trace"], cid=m["id"], fields=sorted(fields), exp=m["exp"], job=r["name"]))
                else:
                    notes += 1
    if specfail:
        tr, m = specfail[0]
        d, c = find_case(tr, m["id"])
        os.makedirs(os.path.join(VERIF, "replays"), exist_ok=True)
        json.dump({"property": prop, "def": d, "case": c, "specfail": m["bad"]}, open(os.path.join(VERIF, "replays", "SPECFAIL-%s.json" % prop), "w"), indent=1)
        raise Broken("the specification violates its own property predicates %s on a recorded case: %s" % (m["bad"], describe(d, c)))
    # samples for the evidence file
    for r in results[:3]:
        try:
            with open(r["trace"]) as f:
                d = json.loads(f.readline())
                c = json.loads(f.readline())
                for _ in range(7):
                    l = f.readline()
                    if l and l.startswith('{"ev":"case"'):
                        c = json.loads(l)
            samples.append(dict(describe(d, c), observed_rest=[tok(t) for t in c["res"]["rest"]], observed_error=c["res"]["err"]["kind"]))
        except Exception:
            pass

    if os.environ.get("VERIF_TRIAGE"):
        triage(violations)
    # a watchdog expiry under load is not a hang: every such case is executed again alone, with a 30 s watchdog
    confirmed = []
    for v in violations:
        if v["fields"] == ["hang"] and v.get("file"):
            if hang_reproduces(gopt, work, v["file"]):
                confirmed.append(v)
            else:
                log("note: a case that exceeded the watchdog under load finished when run alone (%s)" % v["file"])
        elif v["kind"] == "hang":
            log("note: driver %s stopped at a watchdog expiry; the case is reported only if it reproduces alone" % v["job"])
            tr = v["trace"]
            last = None
            try:
                with open(tr) as f:
                    lines = f.readlines()
                dline = [l for l in lines if l.startswith('{"ev":"def"')][-1]
                cline = [l for l in lines if l.startswith('{"ev":"case"')][-1]
                rp = os.path.join(work, "hang-%s.json" % v["job"])
                json.dump({"def": json.loads(dline), "case": json.loads(cline)}, open(rp, "w"))
                if hang_reproduces(gopt, work, rp):
                    v["file"] = rp
                    confirmed.append(v)
            except Exception:
                pass
        else:
            confirmed.append(v)
    violations = confirmed
    rc = 0
    reported = 0
    nviol = 0
    for v in violations:
        if v.get("file"):
            rec = json.load(open(v["file"]))
            d, c = rec["def"], rec["case"]
            desc = describe(d, c)
        elif v.get("crash"):
            d = c = None
            desc = {"process_crash": v["crash"]}
        elif v["cid"] is None:
            d = c = None
            desc = {"hang": v["job"]}
        else:
            d, c = find_case(v["trace"], v["cid"])
            desc = describe(d, c)
        kf = findings.match(known, prop, d, c, v)
        if kf is not None:
            knownhits[kf["id"]] = knownhits.get(kf["id"], 0) + 1
            continue
        nviol += 1
        if reported < 5:
            path = next_replay_path(prop)
            with open(path, "w") as f:
                json.dump({"property": prop, "def": d, "case": c, "fields": v["fields"], "expected": v["exp"], "summary": desc}, f, indent=1)
            log("VIOLATION property=%s replay=%s" % (prop, path))
            log("  input: %s" % json.dumps(desc))
            log("  differing observables: %s" % ",".join(v["fields"]))
            reported += 1
        rc = 1
    for fid, n in sorted(knownhits.items()):
        kf = [k for k in known if k["id"] == fid][0]
        log("KNOWN-FINDING: property=%s %s (%s; %d cases)" % (prop, kf["what"], fid, n))
    if nviol > reported:
        log("(%d further violating cases not written out)" % (nviol - reported))
    if notes:
        log("note: %d cases differ from the specification only in observables outside this property's lens (%s)" % (notes, ",".join(sorted(P["lens"]))))
    if unverifiable:
        log("note: %d cases could not be decided (conversion oracle miss)" % unverifiable)
    if cases == 0:
        raise Broken("no case was executed")
    coverage = {
        "states": states, "transitions": transitions, "traces_validated_against_impl": cases,
        "evaluations": cases, "distinct_nontrivial": nontrivial,
        "rule": "every argv of length <= L over each family's token alphabet for every definition of the family (distinct by construction), plus seeded random definitions/argv; non-trivial = the observable outcome differs from the outcome of the empty command line under the same definition",
        "samples": samples or [{"note": "no sample"}],
        "exhaustive": True,
        "families": P["families"], "lens": sorted(P["lens"]), "spec_predicates": P.get("preds", []),
        "outcome_classes": classes,
        "spec_actions_exercised_by_real_executions": sorted(acts_seen),
        "spec_actions_not_exercised": sorted(set(spec_actions()) - set(acts_seen)),
        "out_of_lens_differences": notes, "undecidable_cases": unverifiable, "known_finding_cases": sum(knownhits.values()),
    }
    write_evidence(prop, tier, seed, P.get("level", "model_checking"), coverage,
                   ["TLC explores the specification exhaustively only up to the stated argv length and alphabets",
                    "numeric conversion is delegated to Go's strconv (conversion oracle table)",
                    "the harness builder/observer faithfully drive and project the public API"],
                   time.time() - t0, nviol)
    log("%s: %d cases validated, %d spec states, %d violations, %d known-finding cases (%.0fs)" % (prop, cases, states, nviol, sum(knownhits.values()), time.time() - t0))
    return rc


def spec_actions():
    """Action labels of the parser specification (every value the steps of Getopt.tla assign to st.act)."""
    import re
    src = open(os.path.join(VERIF, "spec", "Getopt.tla")).read()
    src = src[src.index("(* Steps of Parse."):src.index("(* One step.")]
    return sorted(set(re.findall(r'"([A-Z][a-z]+[A-Z][A-Za-z]*|Descend|Terminator|Return)"', src)) - {"OracleMiss"})


def hang_reproduces(gopt, work, replay_file):
    out = os.path.join(work, "hangcheck.ndjson")
    env = dict(DRIVER_ENV, GOPT_TIMEOUT_S="30", GOPT_REPEAT="0")
    p = subprocess.run([gopt, "rerun", "-in", replay_file, "-out", out], stdout=subprocess.PIPE, stderr=subprocess.STDOUT, text=True, env=env)
    if p.returncode != 0:
        return True   # it took the process down: certainly not fine
    with open(out) as f:
        f.readline()
        c = json.loads(f.readline())
    return bool(c["res"]["hang"])


def triage(violations):
    """Development aid: a few examples per class of divergence, expected vs observed."""
    seen = {}
    for v in violations:
        if v["cid"] is None:
            continue
        d, c = find_case(v["trace"], v["cid"])
        cfg = d["cfg"]
        key = (tuple(v["fields"]), cfg["mode"], v["job"].startswith("x"))
        if seen.get(key, 0) >= int(os.environ.get("VERIF_TRIAGE", "1")):
            continue
        seen[key] = seen.get(key, 0) + 1
        e, r = v["exp"], c["res"]
        print("TRIAGE", v["fields"], "mode", cfg["mode"], "um", [n["um"] for n in cfg["nodes"]], "ro", [n["ro"] for n in cfg["nodes"]],
              "argv", [tok(t) for t in c["argv"]])
        print("   opts", [(o["kind"], tok(o["name"]), [tok(a) for a in o["aliases"]], o["min"], o["max"], o["node"]) for o in cfg["opts"]],
              "nodes", [(tok(n["name"]), n["parent"], n["unset"]) for n in cfg["nodes"]], "env", [(tok(x["name"]), tok(x["val"])) for x in cfg["env"]])
        for f in v["fields"]:
            if f == "err":
                print("   err exp", e["err"]["kind"], tok(e["err"]["name"]), tok(e["err"]["tok"]), [tok(t) for t in e["err"]["cands"]], "| obs", r["err"]["kind"], tok(r["err"]["name"]), tok(r["err"]["tok"]), [tok(t) for t in r["err"]["cands"]], tok(r["err"]["msg"])[:80])
            elif f == "rest":
                print("   rest exp", e["restnil"], [tok(t) for t in e["rest"]], "| obs", r["restnil"], [tok(t) for t in r["rest"]])
            elif f in ("vals", "called", "as", "warn", "agree", "ran", "helpof", "derr"):
                print("   %s exp" % f, json.dumps(e.get(f)), "| obs", json.dumps(r.get(f)))
            elif f == "comps":
                print("   comps exp", [tok(t) for t in e.get("comps", [])], "failed" if e.get("failed") else "", "reached" if e.get("reached") else "notreached", "node", e.get("node"), "| obs", [tok(t) for t in r["comps"]], "sorted", r.get("sorted"))
            elif f == "writer":
                print("   writer exp failed=%s | obs wother=%s err=%s" % (e.get("failed"), r.get("wother"), tok(r["err"]["msg"])[:100]))
            else:
                print("   %s obs" % f, json.dumps(r.get(f)))


def do_replay(prop, P, gopt, work, path):
    rec = json.load(open(path))
    src = os.path.join(work, "replay-in.json")
    shutil.copy(path, src)
    trace = os.path.join(work, "replay.ndjson")
    env = dict(DRIVER_ENV)
    if P.get("repeat"):
        env["GOPT_REPEAT"] = "40"
    run([gopt, "rerun", "-in", src, "-out", trace], env=env)
    msgs = validate_trace(work, "replay", trace)
    bad = [m for m in msgs if m["k"] == "DIFF" and (set(m["fields"]) & (P["lens"] | {"panic", "hang"}))]
    d, c = None, None
    with open(trace) as f:
        d = json.loads(f.readline())
        c = json.loads(f.readline())
    log("replayed: %s" % json.dumps(describe(d, c)))
    if bad:
        log("VIOLATION property=%s replay=%s" % (prop, path))
        log("  differing observables: %s" % ",".join(bad[0]["fields"]))
        log("  expected: %s" % json.dumps(bad[0]["exp"]))
        log("  observed: %s" % json.dumps(c["res"]))
        return 1
    log("replay: the real code now agrees with the specification on this case")
    return 0
