"""selftest.py - demonstrations that the specifications are bound to the code and are not vacuous (not a registered check):
  1. binding, DAG: a recorded trace of the real Graph.Run is accepted; the same trace with one logged field corrupted, with
     one hook event removed, or with two events swapped is rejected by DagTrace;
  2. binding, parser: a recorded case is accepted; the same case with one observable corrupted yields a DIFF;
  3. non-vacuity: mutants of the *specifications* (a property-relevant line changed) are caught by TLC on the
     configurations the checks use."""
import json, os, re, shutil, subprocess, sys, glob
sys.path.insert(0, os.path.dirname(os.path.abspath(__file__)))
from runner import *
import parser_checks, dag_checks

work = os.path.join(VERIF, ".work", "selftest-%d" % os.getpid())
os.makedirs(os.path.join(work, "tr"))
fails = 0


def expect(name, cond):
    global fails
    print(("ok   " if cond else "FAIL ") + name, flush=True)
    if not cond:
        fails += 1


try:
    dagdrive = build_harness(work, "dagdrive")
    gopt = build_harness(work, "gopt")
    # ---- 1. DAG trace binding
    trace = os.path.join(work, "tr", "good.ndjson")
    run([dagdrive, "exhaust", "-v", "3", "-outs", "nil,err", "-orders", "1", "-limit", "2", "-shard", "3", "-of", "8", "-seed", "5", "-out", trace], env=GOENV)
    ok, rej = dag_checks.validate(work, "good", trace)
    expect("DAG: recorded runs of the unchanged code are accepted (%d runs)" % ok, ok > 0 and not rej)
    lines = open(trace).read().splitlines()

    def variant(name, fn):
        p = os.path.join(work, "tr", name + ".ndjson")
        out = fn([json.loads(l) for l in lines])
        open(p, "w").write("\n".join(json.dumps(e, separators=(",", ":")) for e in out) + "\n")
        return dag_checks.validate(work, name, p)

    def corrupt_recv(evs):
        for e in evs:
            if e["ev"] == "recv" and e["k"] == "nil":
                e["k"] = "err"
                break
        return evs
    ok, rej = variant("corrupt", corrupt_recv)
    expect("DAG: one logged field corrupted (recv nil -> err) is rejected at %s" % (rej[0]["event"].get("ev") if rej else None), bool(rej))

    def drop_acquired(evs):
        for i, e in enumerate(evs):
            if e["ev"] == "acquired":
                return evs[:i] + evs[i + 1:]
        return evs
    ok, rej = variant("drop", drop_acquired)
    expect("DAG: one hook event removed (acquired) is rejected at %s" % (rej[0]["event"].get("ev") if rej else None), bool(rej))

    def swap_enter_locked(evs):
        for i in range(len(evs) - 1):
            if evs[i]["ev"] == "locked" and evs[i + 1]["ev"] == "enter" and evs[i]["id"] == evs[i + 1]["id"]:
                evs[i], evs[i + 1] = evs[i + 1], evs[i]
                break
        return evs
    ok, rej = variant("swap", swap_enter_locked)
    expect("DAG: task function entered before the Task mutex was taken is rejected", bool(rej))

    def returned_wrong(evs):
        for e in evs:
            if e["ev"] == "returned" and e["k"] == "errors" and e["tags"]:
                e["tags"] = e["tags"][:-1]
                break
        return evs
    ok, rej = variant("errs", returned_wrong)
    expect("DAG: an entry missing from the returned *Errors is rejected", bool(rej))

    # ---- 2. parser trace binding
    famdir = os.path.join(work, "fam")
    run([gopt, "families", "-out", famdir, "-tier", "quick"], env=GOENV)
    ptrace = os.path.join(work, "tr", "p.ndjson")
    run([gopt, "enum", "-fam", os.path.join(famdir, "scalar-s.ndjson"), "-L", "2", "-out", ptrace], env=GOENV)
    msgs = parser_checks.validate_trace(work, "p-good", ptrace)
    expect("parser: recorded cases of the unchanged code are accepted", not [m for m in msgs if m["k"] == "DIFF"])
    plines = open(ptrace).read().splitlines()
    done = False
    for i, l in enumerate(plines):
        c = json.loads(l)
        if c["ev"] == "case" and c["res"]["rest"] and not done:
            c["res"]["rest"] = c["res"]["rest"][:-1]
            plines[i] = json.dumps(c)
            done = True
    pbad = os.path.join(work, "tr", "p-bad.ndjson")
    open(pbad, "w").write("\n".join(plines) + "\n")
    msgs = parser_checks.validate_trace(work, "p-bad", pbad)
    diffs = [m for m in msgs if m["k"] == "DIFF"]
    expect("parser: one observable corrupted (a remaining argument dropped) yields DIFF %s" % (diffs[0]["fields"] if diffs else None), len(diffs) == 1)

    # ---- 3. specification mutants must be caught by TLC
    def spec_mutant(module, old, new, runner_fn, name):
        src = os.path.join(VERIF, "spec", module)
        orig = open(src).read()
        assert orig.count(old) == 1, (module, old)
        bak = src + ".selftest-bak"
        shutil.copy(src, bak)
        try:
            open(src, "w").write(orig.replace(old, new))
            caught = False
            try:
                runner_fn()
            except Broken:
                caught = True
            expect("spec mutant caught by TLC: " + name, caught)
        finally:
            shutil.move(bak, src)

    def mc_fam(f):
        return lambda: parser_checks.model_check(work, f, os.path.join(famdir, f + ".ndjson"), 0)
    spec_mutant("Getopt.tla", 'ELSE IF v = TermTok THEN NextPair(st, "MaxStopTerminator")', 'ELSE IF FALSE THEN NextPair(st, "MaxStopTerminator")',
                mc_fam("term"), "max loop does not stop at -- (C04 TerminatorRoles)")
    spec_mutant("Getopt.tla", "IF name \\in ks THEN {name} ELSE {k \\in ks : IsPfx(name, k)}", "{k \\in ks : IsPfx(name, k)}",
                mc_fam("abbrev"), "exact name does not win (C05 ExactWins / AmbiguousRejectedAll)")
    spec_mutant("Getopt.tla", "LET pass == Node(cfg, n).um # 0 /\\ ~st.passed IN", "LET pass == Node(cfg, n).um # 0 IN",
                mc_fam("conserve"), "bundle passed through once per unknown letter (C03 Conservation)")
    spec_mutant("Getopt.tla", '[] k = "sslice" -> SOk(Append(cur, a))', '[] k = "sslice" -> SOk(<<a>> \\o cur)',
                mc_fam("multi-ss"), "slice values prepended (C02 StoredInOrder)")
    spec_mutant("Dag.tla", "/\\ phase = \"run\" /\\ w[v] = \"waitsem\" /\\ sem < limit", "/\\ phase = \"run\" /\\ w[v] = \"waitsem\" /\\ sem <= limit",
                lambda: dag_checks.run_mc(work, "C15", "quick"), "semaphore admits limit+1 workers (C15 ExecBound)")
    spec_mutant("Dag.tla", '/\\ \\A c \\in deps[v] : status[c] \\notin {"pending", "inprogress"}}', '/\\ \\A c \\in deps[v] : status[c] \\notin {"pending"}}',
                lambda: dag_checks.run_mc(work, "C13", "quick"), "readiness ignores in-progress dependencies (C13 StartAfterDepsOk)")
    spec_mutant("Dag.tla", 'IF u \\in TransDependents(verts, deps, v) THEN "skip" ELSE st1[u]]', 'IF u \\in Dependents(verts, deps, v) THEN "skip" ELSE st1[u]]',
                lambda: dag_checks.run_mc(work, "C14", "quick"), "skip-parents not transitive (C14 NoDependentOfSkipParents)")
    # ---- 4. behaviour outside the listed properties: getoptions.InterruptContext against spec/Interrupt.tla
    rc, out, d = tlc(work, "interrupt-mc", "Interrupt", """SPECIFICATION Spec
CONSTANT TraceFile = ""
INVARIANTS AtMostOnce MessageOnlyOnSignal DoneImpliesCancelled
PROPERTY Responds
CHECK_DEADLOCK FALSE
""", workers=1, heap="1g")
    expect("Interrupt.tla: safety and liveness hold (TLC)", not tlc_failed(rc, out))
    itrace = os.path.join(work, "tr", "interrupt.ndjson")
    p = run([gopt, "interrupt", "-n", "300", "-seed", "7", "-out", itrace], env=GOENV)
    rc, out, d = tlc(work, "interrupt-tv", "Interrupt", """SPECIFICATION TraceSpec
CONSTANT TraceFile = "%s"
INVARIANTS AtMostOnce MessageOnlyOnSignal DoneImpliesCancelled
POSTCONDITION AllConsumed
CHECK_DEADLOCK FALSE
""" % itrace, workers=1, heap="1g")
    expect("InterruptContext: 300 recorded scenarios (signal / cancel / both) are behaviours of Interrupt.tla", not tlc_failed(rc, out) and "stuck=0" in p.stdout)
finally:
    shutil.rmtree(work, ignore_errors=True)
print("selftest: %d failure(s)" % fails)
sys.exit(1 if fails else 0)
