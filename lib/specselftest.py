"""Model-check every family (specification against its own properties): python3 lib/specselftest.py [tier] [fam...]"""
import sys, os, time, shutil
sys.path.insert(0, os.path.dirname(os.path.abspath(__file__)))
import runner, parser_checks
from runner import *

def main():
    tier = sys.argv[1] if len(sys.argv) > 1 else "quick"
    only = sys.argv[2:]
    work = os.path.join(VERIF, ".work", "selftest-%d" % os.getpid())
    os.makedirs(work)
    try:
        gopt = build_harness(work)
        famdir = os.path.join(work, "fam")
        run([gopt, "families", "-out", famdir, "-tier", tier], env=GOENV)
        for f in sorted(os.listdir(famdir)):
            fam = f[:-7]
            if fam in parser_checks.NOSPEC_FAMILIES:
                continue
            if only and fam not in only:
                continue
            t = time.time()
            try:
                gen, dist = parser_checks.model_check(work, fam, os.path.join(famdir, f), 0)
                print("%-12s OK states=%d transitions=%d %.0fs" % (fam, dist, gen, time.time() - t), flush=True)
            except Broken as e:
                print("%-12s FAIL %s" % (fam, str(e)[:3000]), flush=True)
    finally:
        shutil.rmtree(work, ignore_errors=True)
main()
