#!/bin/sh
# seedtest.sh <seed-dir> <property>... : apply a seeded change to /repo, run the checks, undo it.
set -u
d=$1; shift
cd /repo || exit 2
if ! git diff --quiet; then echo "/repo is dirty"; exit 2; fi
git apply "$d/patch.diff" || { echo "patch does not apply"; exit 2; }
trap 'git -C /repo checkout -- . ' EXIT
for p in "$@"; do
  echo "=== $p on $(basename $d)"
  /verif/check $p 2>&1 | grep -E 'VIOLATION|differing|does not allow|KNOWN|BROKEN|violations|race detector:|input:' | head -${SEEDLINES:-8}
  echo "exit=$?"
done
