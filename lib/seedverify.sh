#!/bin/sh
# seedverify.sh <worktree> <pkgdir> <seed-name>: confirm (a) suite passes with the change, (b) demo fails with it,
# (c) demo passes without it; then store the seed under /verif/seeded/<seed-name>. The change is taken from
# _seed/patch.diff (git stash is shared between worktrees, so the worktree state itself is not trusted).
export GOFLAGS=-mod=mod GOPROXY=off GOSUMDB=off GOTOOLCHAIN=local
d=$1; pk=$2; name=$3
cd $d || exit 2
git checkout -q -- . ; git apply _seed/patch.diff || { echo "$name: patch does not apply"; exit 2; }
a=$(go build ./... 2>&1 && go test -vet=off -count=1 ./... 2>&1 | grep -v 'no test files' | grep -cv '^ok')
cp _seed/demo_test.go $pk/zz_seed_demo_test.go
b=$(go test -vet=off -count=1 -run 'Seed|C[0-9][0-9]' ./$pk/ 2>&1 | tail -1 | cut -c1-60)
git apply -R _seed/patch.diff
c=$(go test -vet=off -count=1 -run 'Seed|C[0-9][0-9]' ./$pk/ 2>&1 | tail -1 | cut -c1-60)
rm -f $pk/zz_seed_demo_test.go
echo "$name: (a) failing-packages=$a (b) with-change: $b (c) without: $c"
mkdir -p /verif/seeded/$name && cp _seed/* /verif/seeded/$name/
git rev-parse HEAD > /verif/seeded/$name/base.txt
