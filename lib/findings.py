"""Matching of violations against /verif/known_findings.json (status "known" only; "fixed" entries suppress nothing)."""


def match(known, prop, d, c, v):
    for k in known:
        if k.get("status") != "known" or prop not in k.get("properties", []):
            continue
        fn = MATCHERS.get(k["id"])
        if fn and fn(d, c, v):
            return k
    return None


MATCHERS = {}


def match_dag(known, prop, v):
    for k in known:
        if k.get("status") != "known" or prop not in k.get("properties", []):
            continue
        fn = MATCHERS.get(k["id"])
        if fn and fn(None, None, v):
            return k
    return None
