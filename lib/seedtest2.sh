#!/bin/sh
# seedtest2.sh <seed-dir> <property>... : like seedtest.sh but on a scratch worktree (VERIF_REPO), leaving /repo alone.
set -u
d=$1; shift
wt=/tmp/seedwt-$$
git -C /repo worktree add --detach $wt HEAD -q || exit 2
trap 'git -C /repo worktree remove --force '$wt'; git -C /repo worktree prune' EXIT
if ! git -C $wt apply "$d/patch.diff" 2>/dev/null; then
  # the change was made against an earlier commit of /repo (recorded in base.txt) and touches lines repaired since
  [ -f "$d/base.txt" ] || { echo "patch does not apply and no base commit recorded"; exit 2; }
  git -C $wt checkout -q --detach "$(cat $d/base.txt)" && git -C $wt apply "$d/patch.diff" || { echo "patch does not apply"; exit 2; }
  echo "(applied on its base commit $(cut -c1-7 $d/base.txt))"
fi
for p in "$@"; do
  echo "=== $p on $(basename $d)"
  VERIF_REPO=$wt /verif/check $p 2>&1 | grep -E 'VIOLATION|differing|does not allow|KNOWN|BROKEN|violations|race detector:|input:' | head -${SEEDLINES:-8}
done
