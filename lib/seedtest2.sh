#!/bin/sh
# seedtest2.sh <seed-dir> <property>... : like seedtest.sh but on a scratch worktree (VERIF_REPO), leaving /repo alone.
set -u
d=$1; shift
wt=/tmp/seedwt-$$
git -C /repo worktree add --detach $wt HEAD -q || exit 2
trap 'git -C /repo worktree remove --force '$wt'; git -C /repo worktree prune' EXIT
git -C $wt apply "$d/patch.diff" || { echo "patch does not apply"; exit 2; }
for p in "$@"; do
  echo "=== $p on $(basename $d)"
  VERIF_REPO=$wt /verif/check $p 2>&1 | grep -E 'VIOLATION|differing|does not allow|KNOWN|BROKEN|violations|race detector:|input:' | head -${SEEDLINES:-8}
done
