"""Rewrites section 12 of DESIGN.md (table of seeded changes) from seeded/*/meta.json."""
import json, os, glob, re
V = os.path.dirname(os.path.dirname(os.path.abspath(__file__)))
rows = []
for d in sorted(glob.glob(os.path.join(V, "seeded", "*"))):
    m = json.load(open(os.path.join(d, "meta.json")))
    name = os.path.basename(d)
    summ = " ".join(str(m.get("summary", "")).split())
    needs = " ".join(str(m.get("needs", "")).split())
    det = " ".join(str(m.get("detection", "")).split())
    cut = lambda s, n: s if len(s) <= n else s[:n - 1].rstrip() + "…"
    rows.append("| `%s` | %s | %s | %s | %s |" % (name, m.get("property", ""), cut(summ, 260).replace("|", "\\|"), cut(needs, 220).replace("|", "\\|"), det.replace("|", "\\|")))
table = "\n".join(["| seed | property | change | needs | which check catches it |", "|---|---|---|---|---|"] + rows)
p = os.path.join(V, "DESIGN.md")
s = open(p).read()
begin, end = "<!-- seeded-table-begin -->", "<!-- seeded-table-end -->"
sec = """## 12. Seeded changes the checks were tried against

Produced by fresh sub-agents that were given only the text of one property and a scratch worktree of /repo (nothing
from /verif); each change compiles, passes the unedited 649-test suite, and comes with a demonstration that fails
with the change and passes without it. Every one was confirmed in a scratch worktree (`lib/seedverify.sh`) before it
was kept under `seeded/<id>/` (patch.diff, demo_test.go, meta.json). The checks are run against a seeded change with
`lib/seedtest.sh` (applies the patch to /repo and undoes it) or `lib/seedtest2.sh` (scratch worktree through
`VERIF_REPO`); none of these changes is committed in /repo. Where a check missed a change it was strengthened
(family tokens, drivers, attribution) - never loosened - and the change is caught now; the last column says how.

The rows `R1`-`R12` are the opposite test: substantial *behaviour-preserving* refactorings (parser core
incl. a hand-written token scanner replacing the regular expressions; option storage and definition functions; the
DAG runner split into helper methods with every `verifEmit` kept at its program point; Parse / Dispatch / help glue)
written by sub-agents with the same isolation. Every check that looks at the touched code was run on each: no alarm.

%s
%s
%s
""" % (begin, table, end)
if begin in s:
    i = s.index("## 12. Seeded changes")
    j = s.index(end) + len(end)
    s = s[:i] + sec.rstrip("\n") + s[j:]
else:
    i = s.index("## Appendix A")
    s = s[:i] + sec + "\n---\n\n" + s[i:]
open(p, "w").write(s)
print(len(rows), "seeds")
