"""mkreplay.py OUT.json 'JSON description' - build a replay file by hand.
description: {"mode":0,"lower":false,"nodes":[{"name":"","parent":0,"um":0,"ro":false,...}],"opts":[{"kind":"string","name":"s","node":1,"aliases":[],...}],
              "env":[["NAME","val"]], "argv":[...], "disp":false, "comp":""}
Strings are converted to atoms here (ASCII-safe + hex for the rest)."""
import json, sys

def atoms(s):
    out = []
    b = s.encode("utf-8", "surrogateescape")
    i = 0
    text = s
    for ch in text:
        e = ch.encode("utf-8", "surrogateescape")
        if len(e) == 1 and 0x20 <= e[0] <= 0x7e and ch not in '"\\':
            out.append(ch)
        else:
            out.append("x" + e.hex())
    return out

def main():
    out, desc = sys.argv[1], json.loads(sys.argv[2])
    nodes = []
    for n in desc.get("nodes", [{"name": "", "parent": 0}]):
        nodes.append({"name": atoms(n.get("name", "")), "parent": n.get("parent", 0), "um": n.get("um", 0), "ro": n.get("ro", False),
                      "unset": n.get("unset", False), "fn": n.get("fn", True), "ishelp": n.get("ishelp", False),
                      "sugg": [atoms(x) for x in n.get("sugg", [])], "desc": atoms(n.get("desc", "")), "args": [], "argsd": [],
                      "dynfn": False, "dynout": []})
    opts = []
    for o in desc.get("opts", []):
        opts.append({"name": atoms(o["name"]), "aliases": [atoms(a) for a in o.get("aliases", [])], "kind": o["kind"],
                     "min": o.get("min", 1), "max": o.get("max", 1), "defb": o.get("defb", False), "defi": o.get("defi", 0),
                     "deft": atoms(o.get("deft", {"string": "def", "sopt": "def", "int": "7", "iopt": "7", "float": "7.5", "fopt": "7.5"}.get(o["kind"], ""))),
                     "node": o.get("node", 1), "req": o.get("req", False), "hasmsg": "reqmsg" in o, "reqmsg": atoms(o.get("reqmsg", "")),
                     "env": atoms(o.get("env", "")), "valid": [atoms(x) for x in o.get("valid", [])], "sugg": [atoms(x) for x in o.get("sugg", [])],
                     "setcalled": o.get("setcalled", False), "ishelpopt": o.get("ishelpopt", False), "desc": atoms(o.get("desc", "")),
                     "argname": [], "usevar": o.get("usevar", False)})
    cfg = {"mode": desc.get("mode", 0), "lower": desc.get("lower", False), "prog": atoms(desc.get("prog", "prog")), "desc": [],
           "nodes": nodes, "opts": opts, "env": [{"name": atoms(k), "val": atoms(v)} for k, v in desc.get("env", [])]}
    rec = {"property": desc.get("property", ""), "def": {"ev": "def", "id": 1, "n": 1, "sp": True, "cfg": cfg, "orc": [], "fam": "", "tokens": [], "L": 0, "disp": desc.get("disp", False)},
           "case": {"ev": "case", "def": 1, "id": 1, "argv": [atoms(a) for a in desc["argv"]], "disp": desc.get("disp", False), "comp": desc.get("comp", "")},
           "note": desc.get("note", "")}
    json.dump(rec, open(out, "w"), indent=1)

main()
