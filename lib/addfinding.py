"""addfinding.py ID status props(comma) commit-subject-prefix|- witness 'what' : append/replace an entry of known_findings.json"""
import json, subprocess, sys
fid, status, props, subj, witness, what = sys.argv[1:7]
commit = ""
if subj != "-":
    log = subprocess.run(["git", "-C", "/repo", "log", "--format=%h %s"], capture_output=True, text=True).stdout.splitlines()
    commit = [l.split()[0] for l in log if l.split(" ", 1)[1].startswith(subj)][0]
p = "/verif/known_findings.json"
d = json.load(open(p))
d["findings"] = [f for f in d["findings"] if f["id"] != fid]
e = dict(id=fid, status=status, properties=props.split(","), what=what, witness=witness)
if commit:
    e["commit"] = commit
d["findings"].append(e)
d["findings"].sort(key=lambda f: int(f["id"][1:]))
d["log"] = []
for f in d["findings"]:
    for pr in f["properties"]:
        if f["status"] == "fixed":
            d["log"].append("fixed: property=%s %s %s" % (pr, f["commit"], f["what"]))
        else:
            d["log"].append("known: property=%s %s" % (pr, f["what"]))
json.dump(d, open(p, "w"), indent=1)
print(e)
