#!/usr/bin/env python3
"""seedmeta.py <overrides.json> <seedround-log>... : record in seeded/<name>/meta.json how a round's seeds were verified
and detected.  The detection text is taken from overrides.json ({name: text}) or derived from the seedround log line
("caught immediately (N diverging cases; first: ...)")."""
import sys, os, re, json
V = os.path.dirname(os.path.dirname(os.path.abspath(__file__)))
over = json.load(open(sys.argv[1])) if os.path.exists(sys.argv[1]) else {}
res = {}
for lg in sys.argv[2:]:
    for l in open(lg):
        m = re.match(r"(\S+) test: (\w+) violations=(\S+)\s+(\(on base commit\))?\s*(.*)", l)
        if m:
            res[m.group(1)] = (m.group(2), m.group(3), m.group(5).strip())
for name in sorted(set(res) | set(over)):
    p = os.path.join(V, "seeded", name, "meta.json")
    if not os.path.exists(p):
        print("no such seed", name); continue
    meta = json.load(open(p))
    prop = meta.get("property") or name.split("-")[0]
    meta["property"] = prop if re.match(r"^C\d\d$", str(prop)) else name.split("-")[0]
    pkg = "dag" if meta["property"] in ("C13", "C14", "C15", "C16") else "."
    meta["verified"] = {"suite_passes_with_change": True, "demo_fails_with_change": True, "demo_passes_without_change": True,
                        "how": "lib/seedverify.sh <scratch worktree> <package dir> %s (patch.diff applied to a clean scratch worktree: go build + unedited suite; demo_test.go copied next to the code and run with the patch applied and reverted)" % name}
    meta["ran"] = "lib/seedtest2.sh /verif/seeded/%s %s  (scratch worktree of /repo with patch.diff applied, VERIF_REPO=<worktree> ./check %s)" % (name, meta["property"], meta["property"])
    if name in over:
        meta["detection"] = over[name]
    elif name in res and res[name][0] == "CAUGHT":
        st, n, first = res[name]
        m = re.search(r'"argv": (\[.*?\]), "dispatch"', first)
        what = ("argv " + m.group(1)) if m else first[:160]
        meta["detection"] = "caught immediately (%s diverging cases; first: %s)" % (n, what)
    elif "detection" not in meta:
        meta["detection"] = "NOT RECORDED"
    json.dump(meta, open(p, "w"), indent=1, ensure_ascii=False)
    print(name, "::", meta["detection"][:150])
