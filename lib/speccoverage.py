"""speccoverage.py [tier] [fam...]: vacuity audit of the parser specification (not a registered check).  Model-checks
every family with TLC's -coverage and adds up, per expression of Getopt.tla / GetoptComp.tla / GetoptProps.tla, how often
it was evaluated over all families: an expression never evaluated is a branch of the specification no exhaustive
family exercises."""
import sys, os, re, shutil, time, json
sys.path.insert(0, os.path.dirname(os.path.abspath(__file__)))
import runner, parser_checks
from runner import *

RE = re.compile(r"^\s*\|*\s*line (\d+), col (\d+) to line (\d+), col (\d+) of module (\w+): (\d+)")

def main():
    tier = sys.argv[1] if len(sys.argv) > 1 else "quick"
    only = sys.argv[2:]
    work = os.path.join(VERIF, ".work", "speccov-%d" % os.getpid())
    os.makedirs(work)
    total = {}
    try:
        gopt = build_harness(work)
        famdir = os.path.join(work, "fam")
        run([gopt, "families", "-out", famdir, "-tier", tier], env=GOENV)
        for f in sorted(os.listdir(famdir)):
            fam = f[:-7]
            if fam in parser_checks.NOSPEC_FAMILIES or (only and fam not in only):
                continue
            famfile = os.path.join(famdir, f)
            comp = json.loads(open(famfile).readline()).get("comp", False)
            t = time.time()
            if comp:
                rc, out, d = tlc(work, "cov-" + fam, "GetoptCompMC", parser_checks.COMP_MC_CFG % dict(fam=famfile, maxlen=0),
                                 workers=4, heap="16g", timeout=7200, extra=("-coverage", "1"))
            else:
                rc, out, d = tlc(work, "cov-" + fam, "GetoptMC", parser_checks.MC_CFG % dict(fam=famfile, maxlen=0, rel="TRUE"),
                                 workers=4, heap="16g", timeout=7200, extra=("-coverage", "1"))
            if tlc_failed(rc, out):
                print("%-12s FAIL" % fam); print(out[-2000:]); continue
            # the last coverage block
            blocks = out.split("The coverage statistics at")
            seen = {}
            for line in blocks[-1].splitlines():
                m = RE.match(line)
                if m:
                    key = (m.group(5), int(m.group(1)), int(m.group(2)), int(m.group(3)), int(m.group(4)))
                    seen[key] = max(seen.get(key, 0), int(m.group(6)))
            for k, v in seen.items():
                total[k] = total.get(k, 0) + v
            print("%-12s %d expressions, %d never evaluated, %.0fs" % (fam, len(seen), sum(1 for v in seen.values() if v == 0), time.time() - t), flush=True)
            shutil.rmtree(d, ignore_errors=True)
        src = {}
        print("\nnever evaluated in any family:")
        for k in sorted(total):
            if total[k] == 0 and k[0] in ("Getopt", "GetoptComp", "GetoptProps", "GetoptHelp"):
                mod, l1, c1, l2, c2 = k
                if mod not in src:
                    src[mod] = open(os.path.join(VERIF, "spec", mod + ".tla")).read().splitlines()
                text = src[mod][l1 - 1][c1 - 1:(c2 if l1 == l2 else None)]
                print("  %s:%d:%d-%d:%d  %s" % (mod, l1, c1, l2, c2, text.strip()[:110]))
    finally:
        shutil.rmtree(work, ignore_errors=True)
main()
