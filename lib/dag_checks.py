"""Checks of the DAG properties (C13-C16) through spec/Dag*.tla."""
import json, os, shutil, subprocess, time
from concurrent.futures import ThreadPoolExecutor
from runner import (VERIF, NCPU, GOENV, Broken, log, run, build_harness, tlc, tlc_stats, tlc_messages, tlc_failed,
                    load_findings, write_evidence, next_replay_path)
import findings

INVS = ("TypeOK StartAfterDepsOk AttemptsBounded HBDepsBeforeEntry NoRunAfterNil NoDependentOfFailed NoDependentOfSkipParents "
        "ReportComplete SkipParentsSilent NoLaunchAfterCancelObserved ExecBound SerialOne SerialHB TaskMutex BlocksWhole "
        "CycleRejected NoStartOnCycle WorkConservingLaunch")

# which property a failing invariant / a rejected event belongs to
INV_PROP = {
    "StartAfterDepsOk": "C13", "AttemptsBounded": "C13", "HBDepsBeforeEntry": "C13", "NoRunAfterNil": "C13",
    "NoDependentOfFailed": "C14", "NoDependentOfSkipParents": "C14", "ReportComplete": "C14", "SkipParentsSilent": "C14",
    "NoLaunchAfterCancelObserved": "C14",
    "ExecBound": "C15", "SerialOne": "C15", "SerialHB": "C15", "TaskMutex": "C15", "BlocksWhole": "C15", "TypeOK": "C15",
    "CycleRejected": "C16", "NoStartOnCycle": "C16", "WorkConservingLaunch": "C16",
}
EV_PROP = {
    "enter": "C13",
    "recv": ("C13", "C14"), "cancelobserved": "C14", "returned": "C14", "sending": ("C13", "C14"),
    "acquired": "C15", "locked": "C15", "acquiring": "C15", "locking": "C15", "write": "C15", "writefail": ("C15", "C16"), "flush": "C15", "releasing": "C15", "unlocking": "C15", "frag": "C15",
    "idle": "C16", "sort": "C16", "run": "C16",
    # Run leaves its loop although not every vertex is done: what is still in flight goes unreported (C14), what is still
    # pending never runs (C16)
    "alldone": ("C14", "C16"), "hang": "C16", "panic": "C16",
    "add": "C16", "dep": "C16", "retries": "C16", "deferr": "C16", "config": "C16",
    "dot": "C16", "validate": "C16", "rerun": ("C14", "C16"), "tmadd": "C16", "tmgetbad": "C16",
    "continue": ("C14", "C16"), "setlimit": "C15", "starved": "C16",
}
DIAG_PROP = {
    "dependency-not-finished": ("C13",), "launched-twice": ("C13",),
    "run-after-failure-or-cancel": ("C14",), "run-of-skipped": ("C13", "C14"), "wrong-kind": ("C14",),
    "run-after-failed-dependency": ("C13", "C14"), "skipped-without-failure": ("C14", "C16"),
    "serial-overlap": ("C15",),
    "not-running": ("C16",), "unknown-vertex": ("C16",),
}

MC_BASE = """SPECIFICATION %(spec)s
CONSTANTS
  Tasks = %(tasks)s
  MaxRetries = %(maxretries)d
  Mode = "%(mode)s"
  Limits = %(limits)s
  Serials = %(serials)s
  Buffereds = %(buffereds)s
  MaxHist = %(maxhist)d
  WithCancel = %(cancel)s
  WithEnvLock = %(envlock)s
  Outcomes = %(outcomes)s
  MaxFrags = %(maxfrags)d
  WithTaskMap = %(taskmap)s
INVARIANTS %(invs)s
%(props)s
CHECK_DEADLOCK FALSE
"""


def mc(name, **kw):
    d = dict(spec="Spec", tasks="{1, 2, 3}", maxretries=0, mode="run", limits="{1, 2}", serials="{FALSE}", buffereds="{FALSE}",
             maxhist=0, cancel="FALSE", envlock="FALSE", outcomes='{"nil", "err", "skipparents"}', maxfrags=0, invs=INVS, props="", taskmap="FALSE")
    d.update(kw)
    return (name, MC_BASE % d)


ALL3 = '{"nil", "err", "skipparents"}'
LIVE = "PROPERTIES Termination ReadyStarts InFlightFinish"
MC_CONFIGS = {
    "C13": {
        "quick": [mc("retries", maxretries=1, limits="{2}", outcomes='{"nil", "err"}'), mc("skip-serial", serials="{FALSE, TRUE}", limits="{1, 3}")],
        "thorough": [mc("retries3", maxretries=1, limits="{1, 2}", cancel="TRUE"), mc("retries2x2", tasks="{1, 2}", maxretries=2, limits="{1, 2}", serials="{FALSE, TRUE}", cancel="TRUE"),
                     mc("four", tasks="{1, 2, 3, 4}", limits="{2}", outcomes='{"nil", "err"}')],
    },
    "C14": {
        "quick": [mc("cancel", cancel="TRUE", limits="{1, 2}")],
        "thorough": [mc("cancel3", cancel="TRUE", limits="{1, 2, 3}", serials="{FALSE, TRUE}"), mc("cancel-retries", cancel="TRUE", maxretries=1, limits="{1, 2}"),
                     mc("four", tasks="{1, 2, 3, 4}", limits="{2}", cancel="FALSE")],
    },
    "C15": {
        "quick": [mc("limits", limits="{1, 2, 3}", serials="{FALSE, TRUE}", outcomes='{"nil", "err"}'),
                  mc("buffer", tasks="{1, 2}", maxretries=1, buffereds="{TRUE}", maxfrags=2, limits="{1, 2}"),
                  mc("shared", tasks="{1, 2}", envlock="TRUE", limits="{1, 2}", serials="{FALSE, TRUE}"),
                  mc("continued", mode="cont", maxhist=3, limits="{1, 2}", outcomes='{"nil"}')],
        "thorough": [mc("limits", limits="{1, 2, 3}", serials="{FALSE, TRUE}", cancel="TRUE"),
                     mc("buffer3", tasks="{1, 2, 3}", maxretries=0, buffereds="{TRUE}", maxfrags=2, limits="{1, 2}", outcomes='{"nil", "err"}'),
                     mc("buffer", tasks="{1, 2}", maxretries=1, buffereds="{TRUE}", maxfrags=2, limits="{1, 2}", cancel="TRUE"),
                     mc("shared3", tasks="{1, 2, 3}", envlock="TRUE", limits="{1, 2}", outcomes='{"nil", "err"}')],
    },
    "C16": {
        "quick": [mc("histories", mode="build", maxhist=4, limits="{2}", outcomes='{"nil"}'),
                  mc("taskmap", mode="build", tasks="{1, 2}", maxhist=4, limits="{2}", outcomes='{"nil"}', taskmap="TRUE"),
                  mc("continued", mode="cont", maxhist=3, limits="{1, 2}", outcomes='{"nil", "err"}'),
                  mc("liveness", spec="LiveSpec", tasks="{1, 2}", maxretries=1, limits="{1, 2}", serials="{FALSE, TRUE}", cancel="TRUE", props=LIVE)],
        "thorough": [mc("histories5", mode="build", maxhist=5, limits="{2}", outcomes='{"nil"}'),
                     mc("taskmap", mode="build", maxhist=4, limits="{2}", outcomes='{"nil"}', taskmap="TRUE"),
                     mc("histories4-outcomes", mode="build", maxhist=4, limits="{1, 2}", outcomes='{"nil", "err"}', maxretries=1),
                     mc("liveness3", spec="LiveSpec", limits="{1, 2}", serials="{FALSE, TRUE}", cancel="TRUE", props=LIVE)],
    },
}

# driver emphasis per property: (sub-command, extra args, runs quick, runs thorough)
# "exhaust": every DAG on v vertices x every outcome assignment x edge declaration orders (n is ignored; the work is sharded)
DRIVERS = {
    "C13": [("rand", ["-maxv", "4", "-weird", "0.05"], 1440, 12000), ("rand", ["-maxv", "6", "-weird", "0"], 480, 4000),
            ("exhaust", ["-v", "4", "-outs", "nil,skipparents", "-orders", "3"], 0, 0),
            ("exhaust", ["-v", "3", "-outs", "nil,err,skipparents", "-orders", "2", "-limit", "2"], 0, 0),
            ("exhaust", ["-v", "3", "-outs", "nil,err,skipparents", "-orders", "1", "-readd"], 0, 0),
            ("rand", ["-maxv", "4", "-weird", "0.7"], 480, 4000),
            ("follow", [], 800, 16000)],
    "C14": [("rand", ["-maxv", "4", "-weird", "0.05"], 1440, 12000), ("rand", ["-maxv", "5", "-weird", "0"], 480, 4000),
            ("exhaust", ["-v", "4", "-outs", "nil,skipparents", "-orders", "3"], 0, 0),
            ("exhaust", ["-v", "4", "-outs", "nil,err", "-orders", "2", "-limit", "2"], 0, 0),
            ("exhaust", ["-v", "3", "-outs", "nil,err,skipparents", "-orders", "1", "-readd"], 0, 0),
            ("rand", ["-maxv", "4", "-weird", "0.7"], 480, 4000),
            ("follow", [], 800, 16000)],
    "C15": [("rand", ["-maxv", "4", "-weird", "0.05"], 960, 8000), ("two", ["-maxv", "3"], 480, 4000),
            ("exhaust", ["-v", "4", "-outs", "nil", "-orders", "1", "-limit", "1"], 0, 0),
            ("exhaust", ["-v", "4", "-outs", "nil", "-orders", "1", "-limit", "2"], 0, 0),
            ("exhaust", ["-v", "3", "-outs", "nil,err,skipparents", "-orders", "1", "-serial"], 0, 0),
            ("follow", [], 800, 16000)],
    "C16": [("rand", ["-maxv", "4", "-weird", "0.6"], 1440, 12000), ("rand", ["-maxv", "3", "-weird", "0.9"], 480, 4000),
            ("rand", ["-maxv", "8", "-weird", "0.1", "-wide"], 480, 4000),  # wide graphs: vertices with five and more dependencies that others depend on
            ("exhaust", ["-v", "3", "-outs", "nil,err", "-orders", "1", "-limit", "1"], 0, 0),
            ("rand", ["-maxv", "5", "-weird", "0", "-fill"], 720, 6000),  # fill-the-semaphore schedules (incl. a second round with another limit)
            ("exhaust", ["-v", "0", "-outs", "nil", "-orders", "3"], 0, 0),  # the empty graph (plain, reversed, shuffled: the same)
            ("exhaust", ["-v", "1", "-outs", "nil,err,skipparents", "-orders", "1", "-serial"], 0, 0),
            ("exhaust", ["-v", "4", "-outs", "nil,skipparents", "-orders", "1"], 0, 0),  # several ErrorSkipParents in one run: vertices re-marked after they were done
            ("follow", [], 480, 16000)],
}
THOROUGH_EXTRA = {
    "C13": [("exhaust", ["-v", "4", "-outs", "nil,err,skipparents", "-orders", "3"], 0, 0), ("exhaust", ["-v", "5", "-outs", "nil,skipparents", "-orders", "2", "-limit", "2"], 0, 0)],
    "C14": [("exhaust", ["-v", "4", "-outs", "nil,err,skipparents", "-orders", "3"], 0, 0), ("exhaust", ["-v", "5", "-outs", "nil,skipparents", "-orders", "2"], 0, 0)],
    "C15": [("exhaust", ["-v", "4", "-outs", "nil,err,skipparents", "-orders", "1", "-serial"], 0, 0), ("exhaust", ["-v", "5", "-outs", "nil", "-orders", "1", "-limit", "2"], 0, 0)],
    "C16": [("exhaust", ["-v", "4", "-outs", "nil,err", "-orders", "1", "-limit", "1"], 0, 0)],
}

PROPS = {"C13": {}, "C14": {}, "C15": {}, "C16": {}}

TRACE_CFG = """SPECIFICATION TraceSpec
CONSTANTS
  Tasks = {"a","b","c","d","e","f","g","h"}
  MaxRetries = 3
  TraceFile = "%(trace)s"
INVARIANTS %(invs)s
POSTCONDITION AllConsumed
CHECK_DEADLOCK FALSE
"""

_NOTE = ("Trusted: TLC; the hook placement rule (events that enable others are logged before the real operation, events enabled by others after it), "
         "so the single mutex-ordered event log is consistent with causality; the harness controller. Exhaustive for the stated graph sizes on the "
         "specification; the real code is bound by validating every recorded controlled schedule, which samples (seeded) rather than enumerates interleavings.")


def _mt(ref, text):
    return dict(engine="dag-tla", level="model_checking", ref=ref, note=_NOTE, text=text,
                technique="TLA+ specification of scheduler and workers model-checked by TLC (safety, liveness) + TLC trace validation of controlled schedules of the real dag.Graph.Run")


MANIFEST_TEXT = {
    "C13": _mt("DESIGN.md 6 C13", "StartAfterDepsOk, AttemptsBounded, NoRunAfterNil and the happens-before ghost HBDepsBeforeEntry are TLC invariants of Dag.tla over every DAG on 3 (thorough: 4) vertices x retries x limits x outcomes x all interleavings; the real Run is single-stepped through build-tag hooks by a seeded controller (each hooked goroutine parks until released), and every recorded event sequence must be a behaviour of the spec with all invariants evaluated at every step; memory visibility itself is checked by hook-free runs under the race detector with plain reads of what dependencies wrote. Re-definition of a task with a fresh Task value, huge retry counts, wrapped sentinel errors and task errors that carry context.Canceled / DeadlineExceeded are part of the plans."),
    "C14": _mt("DESIGN.md 6 C14", "NoDependentOfFailed, NoDependentOfSkipParents, ReportComplete (exact content of the returned *Errors), SkipParentsSilent and the launch kinds after failure / observed cancellation are checked by TLC with cancellation at every point; recorded schedules of the real code with random outcomes and cancellation points are validated, including the entries of the returned error. A Run repeated on the same graph must return what the first returned; a successful graph that is extended and run again (Continue) is explored by TLC (mode cont) and driven in the harness."),
    "C15": _mt("DESIGN.md 6 C15", "ExecBound, SerialOne, SerialHB, TaskMutex (other graph modelled as an environment that locks the shared Task) and BlocksWhole are TLC invariants; real runs with low limits, serial mode, output buffering with multi-fragment tasks (recording writer) and two graphs sharing Task objects run concurrently are validated event by event (acquired only below the limit, every Write call equal to exactly one attempt's output). Continued runs with another limit, large (9000 byte) outputs, a writer that reports errors (FlushFail) and graphs that learn an ID through a Task value of their own before they get the shared one are covered."),
    "C16": _mt("DESIGN.md 6 C16", "Termination, ReadyStarts and InFlightFinish are checked by TLC under fairness; construction histories (AddTask / TaskDependsOn / TaskRetries in any order and repetition, duplicate and self edges, lookups of unknown tasks) up to 4 (thorough 5) calls are explored before Run; in recorded real runs an `idle` tick is accepted only when the spec has nothing eligible and is not done (work conservation), cycles / definition errors must be answered before any launch, DepthFirstSort output must be topological, and a run whose scheduler idles 3000 times with nothing else in flight is a stall. Fill-the-semaphore schedules: workers are held inside their function until min(limit, in flight) are in; a launched worker that cannot take a free slot within 1500 scheduler ticks is a `starved` event (confirmed by re-execution alone). The empty graph and continued runs (narrow first, wider second round) are covered."),
}


SIM_CFG = """INIT SimInit
NEXT SimNext
CONSTANTS
  Tasks = {1, 2, 3}
  MaxRetries = 1
  Mode = "run"
  Limits = {1, 2}
  Serials = {FALSE, TRUE}
  Buffereds = {FALSE}
  MaxHist = 0
  WithCancel = TRUE
  WithEnvLock = FALSE
  Outcomes = {"nil", "err", "skipparents"}
  MaxFrags = 0
  WithTaskMap = FALSE
INVARIANT EmitBehaviour
CHECK_DEADLOCK FALSE
"""


def simulate(work, name, num, seed):
    """Behaviours of Dag.tla generated by TLC in simulation mode -> ndjson file for `dagdrive follow`."""
    rc, out, d = tlc(work, "sim-" + name, "DagSim", SIM_CFG, workers=1, heap="1g", timeout=1800,
                     extra=["-simulate", "num=%d" % num, "-depth", "150", "-seed", str(seed)])
    msgs = [m for m in tlc_messages(out) if m.get("k") == "BEHAVIOUR"]
    if not msgs:
        raise Broken("TLC simulation produced no behaviour:\n" + "\n".join(out.splitlines()[-20:]))
    path = os.path.join(work, "tr", name + ".behaviours.ndjson")
    with open(path, "w") as f:
        for m in msgs:
            f.write(json.dumps(m) + "\n")
    return path


def run_mc(work, prop, tier):
    states = transitions = 0
    for name, cfg in MC_CONFIGS[prop][tier]:
        t1 = time.time()
        rc, out, d = tlc(work, "mc-" + name, "DagMC", cfg, workers=NCPU, heap="12g", timeout=10800)
        gen, dist = tlc_stats(out)
        if tlc_failed(rc, out):
            raise Broken("the DAG specification fails its own properties in configuration %s (rc=%d):\n%s" % (name, rc, "\n".join(out.splitlines()[-60:])))
        log("spec: DagMC %s: %d states, %d transitions, all properties hold (%.0fs)" % (name, dist, gen, time.time() - t1))
        states += dist
        transitions += gen
    return states, transitions


def stall_reproduces(dagdrive, work, name, plan):
    src = os.path.join(work, "tr", name + ".stall.json")
    json.dump({"plan": plan}, open(src, "w"))
    out = os.path.join(work, "tr", name + ".stall.ndjson")
    p = subprocess.run([dagdrive, "rerun", "-in", src, "-out", out, "-times", "3"], stdout=subprocess.PIPE, stderr=subprocess.STDOUT, text=True, env=GOENV, timeout=900)
    if p.returncode != 0:
        return True
    with open(out) as f:
        return any('"ev":"hang"' in l or '"ev":"starved"' in l for l in f)


def reproduce_crash(dagdrive, work, name, plan):
    src = os.path.join(work, "tr", name + ".crash.json")
    json.dump({"plan": plan}, open(src, "w"))
    out = os.path.join(work, "tr", name + ".crash.ndjson")
    p = subprocess.run([dagdrive, "rerun", "-in", src, "-out", out, "-times", "2"], stdout=subprocess.PIPE, stderr=subprocess.STDOUT, text=True, env=GOENV, timeout=600)
    if p.returncode != 0 and "fatal error:" in p.stdout:
        what = [l for l in p.stdout.splitlines() if l.startswith("fatal error:")][0]
        return {"plan": plan, "what": what}
    return None


def split_runs(path):
    """-> list of (start_line_index, end_line_index_exclusive, run_number) for each run of a trace file."""
    runs = []
    with open(path) as f:
        lines = f.readlines()
    for i, l in enumerate(lines):
        if l.startswith('{"ev":"config"'):
            if runs:
                runs[-1][1] = i
            runs.append([i, len(lines), json.loads(l)["run"]])
    return lines, runs


def validate(work, name, trace):
    """Validate a multi-run trace file; a rejected run is reported and validation continues after it.
    -> (runs_ok, [rejection dicts])"""
    lines, runs = split_runs(trace)
    rej = []
    ok = 0
    start = 0   # index into runs
    it = 0
    while start < len(runs) and it < 8:
        it += 1
        part = os.path.join(work, "tr", "%s.part%d.ndjson" % (name, it))
        with open(part, "w") as f:
            f.writelines(lines[runs[start][0]:])
        rc, out, d = tlc(work, "tv-%s-%d" % (name, it), "DagTrace", TRACE_CFG % dict(trace=part, invs=INVS), workers=1, heap="1500m", timeout=7200)
        msgs = tlc_messages(out)
        if not tlc_failed(rc, out):
            ok += len(runs) - start
            break
        rejects = [m for m in msgs if m["k"] == "REJECT"]
        diags = [m for m in msgs if m["k"] == "DIAG"]
        inv = None
        for line in out.splitlines():
            if line.startswith("Error: Invariant ") and " is violated" in line:
                inv = line.split()[2]
        if not rejects and not inv:
            raise Broken("DAG trace validation broke for %s:\n%s" % (name, "\n".join(out.splitlines()[-30:])))
        if rejects:
            ln = rejects[0]["line"]          # 1-based line within part
            ev = rejects[0]["ev"]
        else:
            # an invariant failed: TLC printed the counterexample; its length is the line
            ln = max([int(x.split()[1].rstrip(":")) for x in out.splitlines() if x.startswith("State ") and x.split()[1].rstrip(":").isdigit()] or [1]) - 1
            ev = json.loads(lines[runs[start][0] + max(ln - 1, 0)]) if ln >= 1 else {"ev": "?"}
        absline = runs[start][0] + ln - 1
        ri = max(i for i in range(len(runs)) if runs[i][0] <= absline)
        ok += ri - start
        why = None
        for dg in diags:
            if dg["line"] == ln:
                why = dg["why"]
        rej.append(dict(run=runs[ri][2], event=ev, invariant=inv, why=why, lines=lines[runs[ri][0]:runs[ri][1]], trace=trace, pos=absline - runs[ri][0]))
        start = ri + 1
    return ok, rej


def attribute(r):
    """-> tuple of the properties a rejection belongs to"""
    if r["invariant"]:
        return (INV_PROP.get(r["invariant"], "C16"),)
    ev = r["event"].get("ev")
    if ev == "launch":
        if r["event"].get("k") != "run" and (r["why"] or "") == "dependency-not-finished":
            # a task reported as skipped-after-failure while one of its dependencies is still running: no function is
            # entered (C13 holds), but the report is decided before the dependency's outcome is known (C14)
            return ("C14",)
        return DIAG_PROP.get(r["why"] or "", ("C14",))
    p = EV_PROP.get(ev, "C16")
    p = p if isinstance(p, tuple) else (p,)
    if ev == "unlocking" and left_without_sending(r):
        # the task's goroutine is on its way out (deferred Unlock) and never handed its outcome to the scheduler: the
        # outcome goes unreported (C14) and Run waits for it for ever (C16)
        p = tuple(sorted(set(p) | {"C14", "C16"}))
    return p


def left_without_sending(r):
    """the rejected `unlocking` of a task follows its `locked` with no `sending` in between"""
    ev = r["event"]
    sent = None
    for x in r["lines"][:r.get("pos", 0)]:
        try:
            e = json.loads(x)
        except ValueError:
            continue
        if e.get("id") != ev.get("id") or e.get("g") != ev.get("g"):
            continue
        if e.get("ev") == "locked":
            sent = False
        elif e.get("ev") == "sending" and sent is not None:
            sent = True
    return sent is False


def check(prop, tier, seed, work, replay, t0):
    dagdrive = build_harness(work, "dagdrive")
    os.makedirs(os.path.join(work, "tr"), exist_ok=True)
    if replay:
        return do_replay(prop, dagdrive, work, replay)
    states, transitions = run_mc(work, prop, tier)

    drivers = DRIVERS[prop] + (THOROUGH_EXTRA.get(prop, []) if tier == "thorough" else [])
    jobs = list(range(NCPU))

    def one(k):
        name = "shard-%d" % k
        trace = os.path.join(work, "tr", name + ".ndjson")
        plans = os.path.join(work, "tr", name + ".plans")
        info = {"cases": 0, "nontrivial": 0, "hangs": 0, "overlap": 0, "stats": {}}
        with open(trace, "w") as tout, open(plans, "w") as pout:
            for di, (sub, extra, nq, nt) in enumerate(drivers):
                n = nq if tier == "quick" else nt
                per = max(1, n // NCPU)
                part, ppart = trace + ".part", plans + ".part"
                args = [dagdrive, sub, "-seed", str(seed * 100000 + di * 1000 + k), "-out", part, "-runbase", str(di * 10000000)] + list(extra)
                if sub == "exhaust":
                    args += ["-shard", str(k), "-of", str(NCPU)]
                elif sub == "follow":
                    # model -> code: behaviours generated by TLC from the specification are replayed on the real code
                    args += ["-in", simulate(work, "%s-%d" % (name, di), per, seed * 1000 + di * 100 + k)]
                else:
                    args += ["-n", str(per)]
                if sub in ("rand", "exhaust", "follow"):
                    args += ["-plans", ppart]
                try:
                    p = subprocess.run(args, stdout=subprocess.PIPE, stderr=subprocess.STDOUT, text=True, env=GOENV,
                                       timeout=1800 if tier == "quick" else 14400)
                except subprocess.TimeoutExpired:
                    # a driver that does not come to an end is a failure of the machinery (its own stall rules should have
                    # ended the run): never a verdict
                    raise Broken("dagdrive did not finish: " + " ".join(args))
                if p.returncode != 0 and "fatal error:" in p.stdout and os.path.exists(ppart):
                    # the Go runtime killed the process (stack overflow, deadlock ...): if the last plan does it again
                    # in a process of its own, the library is at fault, not the driver
                    with open(ppart) as f:
                        last = f.readlines()[-1]
                    crash = reproduce_crash(dagdrive, work, name, json.loads(last))
                    if crash:
                        info.setdefault("crashes", []).append(crash)
                        if os.path.exists(part):
                            os.remove(part)
                        continue
                if p.returncode != 0:
                    raise Broken("dagdrive failed (%d): %s\n%s" % (p.returncode, " ".join(args), p.stdout[-2000:]))
                for line in p.stdout.splitlines():
                    if line.startswith("STATS "):
                        for k2, v2 in json.loads(line[6:]).items():
                            info["stats"][k2] = info["stats"].get(k2, 0) + v2
                        continue
                    for kv in line.split():
                        if "=" in kv:
                            a, b = kv.split("=", 1)
                            if a in info and b.isdigit():
                                info[a] += int(b)
                with open(part) as f:
                    shutil.copyfileobj(f, tout)
                os.remove(part)
                if os.path.exists(ppart):
                    with open(ppart) as f:
                        shutil.copyfileobj(f, pout)
                    os.remove(ppart)
        ok, rej = validate(work, name, trace)
        return dict(name=name, trace=trace, plans=plans, info=info, ok=ok, rej=rej)

    t1 = time.time()
    with ThreadPoolExecutor(max_workers=NCPU) as ex:
        results = list(ex.map(one, jobs))
    log("conformance: %d trace files of controlled schedules of the real Graph.Run validated by TLC (%.0fs)" % (len(results), time.time() - t1))

    race_note = None
    if prop in ("C13", "C15"):
        race_note = race_run(work, prop, tier, seed)

    cases = sum(r["info"]["cases"] for r in results)
    nontrivial = sum(r["info"]["nontrivial"] for r in results)
    classes = {}
    for r in results:
        for k, v in r["info"]["stats"].items():
            classes[k] = classes.get(k, 0) + v
    log("outcome classes of the executed runs: %s" % json.dumps(classes, sort_keys=True))
    known = load_findings()
    nviol, reported, notes, knownhits = 0, 0, 0, {}
    viols = []
    # a run that the controller gave up on (stall / silence) counts only if the same plan stalls again when run alone
    confirmed = 0
    for r in results:
        keep = []
        for rj in r["rej"]:
            if rj["event"].get("ev") in ("hang", "starved") and r["plans"] and os.path.exists(r["plans"]):
                if confirmed >= 8:
                    # executing a stalled plan again costs three stall time-outs: eight confirmed ones are enough to
                    # report, the others are left out (fewer violations reported, never more)
                    log("note: run %d stalled; not executed again (eight stalls already confirmed)" % rj["run"])
                    continue
                plan = None
                with open(r["plans"]) as f:
                    for line in f:
                        q = json.loads(line)
                        if q["Run"] == rj["run"]:
                            plan = q
                if plan is not None and not stall_reproduces(dagdrive, work, r["name"], plan):
                    log("note: run %d stalled under load but not when executed alone" % rj["run"])
                    continue
                confirmed += 1
            keep.append(rj)
        r["rej"] = keep
    for r in results:
        for cr in r["info"].get("crashes", []):
            # the process running Graph.Run died: Run did not finish (C16)
            if prop == "C16":
                viols.append(dict(kind="crash", res=r, rej=None, crash=cr))
            else:
                notes += 1
        if r["info"]["overlap"] and prop == "C15":
            viols.append(dict(kind="overlap", res=r, rej=None))
        for rj in r["rej"]:
            if prop in attribute(rj):
                viols.append(dict(kind="reject", res=r, rej=rj))
            else:
                notes += 1
                if os.environ.get("VERIF_TRIAGE"):
                    log("  (other property %s) run %s: event %s invariant=%s why=%s" % (attribute(rj), rj.get("run"), json.dumps(rj["event"]), rj["invariant"], rj["why"]))
    if race_note and race_note.get("violation"):
        viols.append(dict(kind="race", res=None, rej=None, detail=race_note["violation"]))
    rc = 0
    for v in viols:
        kf = findings.match_dag(known, prop, v)
        if kf is not None:
            knownhits[kf["id"]] = knownhits.get(kf["id"], 0) + 1
            continue
        nviol += 1
        rc = 1
        if reported < 5:
            path = next_replay_path(prop)
            rec = {"property": prop, "kind": v["kind"]}
            if v["kind"] == "reject":
                rj = v["rej"]
                rec.update(rejected_event=rj["event"], invariant=rj["invariant"], why=rj["why"], events=[json.loads(x) for x in rj["lines"]])
                if v["res"]["plans"] and os.path.exists(v["res"]["plans"]):
                    with open(v["res"]["plans"]) as f:
                        for line in f:
                            p = json.loads(line)
                            if p["Run"] == rj["run"]:
                                rec["plan"] = p
            elif v["kind"] == "race":
                rec["detail"] = v["detail"]
            elif v["kind"] == "crash":
                rec["plan"] = v["crash"]["plan"]
                rec["detail"] = v["crash"]["what"]
            with open(path, "w") as f:
                json.dump(rec, f, indent=1)
            log("VIOLATION property=%s replay=%s" % (prop, path))
            if v["kind"] == "reject":
                rj = v["rej"]
                hist = [(e["ev"], e["id"], e["d"]) for e in rec["events"] if e["ev"] in ("add", "dep", "retries", "deferr")]
                log("  graph construction: %s" % json.dumps(hist))
                log("  the specification does not allow event %s (invariant=%s, why=%s) at that point of the recorded run" % (
                    json.dumps({k: rj["event"].get(k) for k in ("ev", "id", "k", "n")}), rj["invariant"], rj["why"]))
            elif v["kind"] == "race":
                log("  race detector: %s" % v["detail"][:300])
            elif v["kind"] == "crash":
                hist = [(o["op"], o["t"], o.get("d", "")) for o in v["crash"]["plan"]["History"]]
                log("  graph construction: %s" % json.dumps(hist))
                log("  Graph.Run took the whole process down (%s), reproduced in a process of its own" % v["crash"]["what"])
            else:
                log("  a Task shared by two graphs was inside its function in both at once")
            reported += 1
    for fid, n in sorted(knownhits.items()):
        kf = [k for k in known if k["id"] == fid][0]
        log("KNOWN-FINDING: property=%s %s (%s; %d runs)" % (prop, kf["what"], fid, n))
    if notes:
        log("note: %d rejected runs belong to other DAG properties (reported by their own checks)" % notes)
    if cases == 0:
        raise Broken("no run was executed")
    samples = []
    for r in results[:2]:
        lines, runs = split_runs(r["trace"])
        if runs:
            evs = [json.loads(x) for x in lines[runs[0][0]:runs[0][1]]]
            samples.append([" ".join(x for x in (e["ev"], e["id"], e["k"], e["d"]) if x) for e in evs][:60])
    coverage = {
        "states": states, "transitions": transitions, "traces_validated_against_impl": cases,
        "evaluations": cases, "distinct_nontrivial": nontrivial,
        "rule": "seeded random graphs (as construction histories), outcomes, limits, serial/buffer modes, cancellation points and schedules; non-trivial = at least two task-function entries; distinct by (history, outcomes, limit, serial)",
        "samples": samples or [["no sample"]],
        "exhaustive": False,
        "model_configurations": [n for n, _ in MC_CONFIGS[prop][tier]],
        "outcome_classes": classes, "rejections_of_other_properties": notes, "known_finding_cases": sum(knownhits.values()),
        "race_detector": race_note,
    }
    write_evidence(prop, tier, seed, "model_checking", coverage,
                   ["schedules of the real code are sampled by a seeded controller, not enumerated",
                    "hook placement makes the logged order consistent with causality",
                    "memory visibility is decided by the Go race detector on hook-free runs, not by TLC"],
                   time.time() - t0, nviol)
    log("%s: %d runs validated, %d spec states, %d violations, %d known-finding runs (%.0fs)" % (prop, cases, states, nviol, sum(knownhits.values()), time.time() - t0))
    return rc


def race_run(work, prop, tier, seed):
    """Hook-free runs under the race detector (memory visibility clauses of C13 / C15)."""
    try:
        binr = build_harness(work, "dagdrive", race=True)
    except Broken as e:
        return {"skipped": "race build unavailable: %s" % str(e)[:200]}
    n = 150 if tier == "quick" else 3000
    p = subprocess.run([binr, "race", "-n", str(n), "-seed", str(seed)], stdout=subprocess.PIPE, stderr=subprocess.STDOUT, text=True,
                       env=dict(GOENV, GORACE="halt_on_error=1 exitcode=66"), timeout=7200)
    note = {"runs": n, "exit": p.returncode}
    if p.returncode == 66 or "DATA RACE" in p.stdout:
        note["violation"] = p.stdout[:3000]
    elif p.returncode == 3:
        note["hang"] = True
    elif p.returncode != 0:
        raise Broken("race run failed (%d):\n%s" % (p.returncode, p.stdout[-2000:]))
    log("race detector: %d hook-free runs, exit %d" % (n, p.returncode))
    return note


def do_replay(prop, dagdrive, work, path):
    rec = json.load(open(path))
    if "plan" not in rec:
        log("replay file carries no plan (kind=%s); nothing to re-execute" % rec.get("kind"))
        return 2
    src = os.path.join(work, "replay-in.json")
    shutil.copy(path, src)
    trace = os.path.join(work, "tr", "replay.ndjson")
    p = subprocess.run([dagdrive, "rerun", "-in", src, "-out", trace, "-times", "30"], stdout=subprocess.PIPE, stderr=subprocess.STDOUT, text=True, env=GOENV, timeout=1800)
    if p.returncode != 0 and "fatal error:" in p.stdout:
        log("VIOLATION property=%s replay=%s" % (prop, path))
        log("  Graph.Run took the whole process down: %s" % [l for l in p.stdout.splitlines() if l.startswith("fatal error:")][0])
        return 1
    if p.returncode != 0:
        raise Broken("dagdrive rerun failed (%d):\n%s" % (p.returncode, p.stdout[-2000:]))
    ok, rej = validate(work, "replay", trace)
    mine = [r for r in rej if prop in attribute(r)]
    if mine:
        rj = mine[0]
        log("VIOLATION property=%s replay=%s" % (prop, path))
        log("  rejected event %s invariant=%s why=%s" % (json.dumps({k: rj["event"].get(k) for k in ("ev", "id", "k", "n")}), rj["invariant"], rj["why"]))
        return 1
    log("replay: %d re-executions of the plan (30 schedule seeds) are all behaviours of the specification" % ok)
    return 0
