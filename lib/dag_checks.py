PROPS = {}
MANIFEST_TEXT = {}


def check(prop, tier, seed, work, replay, t0):
    raise NotImplementedError
